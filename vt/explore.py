"""Deviation-bounded stateless exploration of executions of the real implementation.

An execution is replayed from scratch: `factory()` builds a fresh world, `prefix` fixes the
choice at the first len(prefix) points, afterwards choice 0 (the default environment answer)
is taken until the world reports a terminal point.  All alternatives at all later points are
then pushed as new prefixes while the number of deviations fits the bound.

World interface: menu() -> [(name, cost, key)], apply(ev), describe(ev), canon() -> bytes,
trace_digest() -> str, close().  Oracle interface: point(world) -> [(clause, detail)],
terminal(world) -> [(clause, detail)].
"""
import importlib
import json
import multiprocessing as mp
import os
import time
import traceback

from .loop import HarnessError


class ExecResult:
    __slots__ = ("choices", "alts", "violations", "digest", "canons", "npoints", "names",
                 "terminal_kind", "vpoint")

    def __init__(self):
        self.choices = []
        self.alts = []        # per point: list of costs of the menu entries
        self.violations = []  # (clause, detail)
        self.digest = None
        self.canons = []
        self.npoints = 0
        self.names = None
        self.terminal_kind = None
        self.vpoint = None


def run_one(factory, oracle, prefix, describe=False, canon_from=0):
    """Run one execution. Returns ExecResult."""
    world = factory()
    r = ExecResult()
    if describe:
        r.names = []
    try:
        i = 0
        while True:
            menu = world.menu()
            if not menu:
                break
            if i < len(prefix):
                c = prefix[i]
                if c >= len(menu):
                    raise HarnessError(
                        "replay divergence: choice %d out of range %d at point %d" % (c, len(menu), i))
            else:
                c = 0
            r.choices.append(c)
            r.alts.append([m[1] for m in menu])
            if describe:
                r.names.append(world.describe(menu[c]))
            world.apply(menu[c])
            i += 1
            if i >= len(prefix):
                if i > canon_from:
                    r.canons.append(world.canon())
                v = oracle.point(world)
                if v:
                    r.violations = v
                    r.vpoint = i
                    break
        r.npoints = i
        if not r.violations:
            if i < len(prefix):
                raise HarnessError("replay divergence: execution ended at point %d before prefix end %d" % (i, len(prefix)))
            v = oracle.terminal(world)
            if v:
                r.violations = v
                r.vpoint = i
        r.digest = world.trace_digest()
    finally:
        world.close()
    return r


def deviations(choices):
    return sum(1 for c in choices if c)


def trim(choices):
    """Drop the trailing default choices (a prefix identifies the execution)."""
    n = len(choices)
    while n and choices[n - 1] == 0:
        n -= 1
    return list(choices[:n])


class Stats:
    def __init__(self):
        self.executions = 0
        self.transitions = 0
        self.canons = set()
        self.digests = set()
        self.by_dev = {}
        self.violations = {}     # signature -> dict(count, example prefix, clause, detail, devs)
        self.max_points = 0
        self.menu_hist = {}
        self.samples = []
        self.replays = 0

    def merge(self, o):
        self.executions += o.executions
        self.transitions += o.transitions
        self.canons |= o.canons
        self.digests |= o.digests
        for k, v in o.by_dev.items():
            self.by_dev[k] = self.by_dev.get(k, 0) + v
        for k, v in o.menu_hist.items():
            self.menu_hist[k] = self.menu_hist.get(k, 0) + v
        for sig, v in o.violations.items():
            cur = self.violations.get(sig)
            if cur is None:
                self.violations[sig] = v
            else:
                cur["count"] += v["count"]
                if (v["devs"], len(v["prefix"])) < (cur["devs"], len(cur["prefix"])):
                    n = cur["count"]
                    self.violations[sig] = dict(v, count=n)
        self.max_points = max(self.max_points, o.max_points)
        self.replays += o.replays
        if len(self.samples) < 6:
            self.samples.extend(o.samples[: 6 - len(self.samples)])


def explore_subtree(factory, oracle, root, bound, signature, seed=0, sample_every=211, deadline=None):
    """DFS below `root` (a prefix whose own execution is included)."""
    st = Stats()
    stack = [list(root)]
    while stack:
        prefix = stack.pop()
        r = run_one(factory, oracle, prefix, canon_from=max(0, len(prefix) - 1))
        st.executions += 1
        new_points = r.npoints - max(0, len(prefix) - 1)
        st.transitions += max(0, new_points)
        st.canons.update(r.canons)
        st.digests.add(r.digest)
        d = deviations(r.choices)
        st.by_dev[d] = st.by_dev.get(d, 0) + 1
        st.max_points = max(st.max_points, r.npoints)
        limit = r.npoints
        if r.violations:
            for clause, detail in r.violations[:1]:
                sig = signature(clause, detail, r)
                cur = st.violations.get(sig)
                ent = dict(count=1, prefix=trim(r.choices), clause=clause, detail=detail, devs=d)
                if cur is None:
                    st.violations[sig] = ent
                else:
                    cur["count"] += 1
                    if (d, len(ent["prefix"])) < (cur["devs"], len(cur["prefix"])):
                        ent["count"] = cur["count"]
                        st.violations[sig] = ent
            limit = (r.vpoint or 1) - 1
        # determinism self-test on a seed-selected subset
        if (st.executions + seed) % sample_every == 0:
            r2 = run_one(factory, oracle, r.choices)
            st.replays += 1
            if r2.digest != r.digest or r2.choices != r.choices:
                raise HarnessError("NONDETERMINISM: replay of %r differs" % (trim(r.choices),))
            if len(st.samples) < 3:
                r3 = run_one(factory, oracle, r.choices, describe=True)
                st.samples.append([n for n, c in zip(r3.names, r3.choices) if c] or ["(default schedule)"])
        used = 0
        for i in range(min(limit, len(r.choices))):
            if i >= len(prefix):
                m = len(r.alts[i])
                st.menu_hist[m] = st.menu_hist.get(m, 0) + 1
                if used + 1 <= bound:
                    for alt in range(1, m):
                        stack.append(r.choices[:i] + [alt])
            if r.choices[i]:
                used += 1
        if deadline is not None and time.time() > deadline:
            st.capped = True
            break
    return st


# ----------------------------------------------------------------------------- parallel driver
def _worker(args):
    modname, scen, root, bound, seed, deadline = args
    try:
        mod = importlib.import_module(modname)
        factory, oracle, signature = mod.scenario(scen)
        st = explore_subtree(factory, oracle, root, bound, signature, seed=seed, deadline=deadline)
        return ("ok", scen, st)
    except BaseException as e:  # noqa
        return ("err", scen, "%s\n%s" % (e, traceback.format_exc()))


def explore_parallel(modname, scens_bounds, seed=0, workers=None, budget_s=None):
    """scens_bounds: list of (scenario id, bound). Returns {scen: Stats}."""
    mod = importlib.import_module(modname)
    tasks = []
    results = {}
    deadline = time.time() + budget_s if budget_s else None
    for scen, bound in scens_bounds:
        factory, oracle, signature = mod.scenario(scen)
        st = Stats()
        # the default execution, in the master
        root = explore_subtree(factory, oracle, [], 0, signature, seed=seed)
        st.merge(root)
        results[scen] = st
        if bound >= 1:
            r = run_one(factory, oracle, [])
            limit = r.npoints if not r.violations else (r.vpoint or 1) - 1
            for i in range(min(limit, len(r.choices))):
                for alt in range(1, len(r.alts[i])):
                    tasks.append((modname, scen, r.choices[:i] + [alt], bound, seed, deadline))
    # rotate task order by seed (visiting order only; the set is the same)
    if tasks:
        k = seed % len(tasks)
        tasks = tasks[k:] + tasks[:k]
    workers = workers or min(16, os.cpu_count() or 1)
    capped = False
    if tasks:
        ctx = mp.get_context("fork")
        with ctx.Pool(workers) as pool:
            for status, scen, payload in pool.imap_unordered(_worker, tasks, chunksize=1):
                if status != "ok":
                    raise HarnessError("worker failed in %s: %s" % (scen, payload))
                results[scen].merge(payload)
                capped = capped or getattr(payload, "capped", False)
    for st in results.values():
        st.capped = capped
    return results


def write_replay(path, prop, scen, spec_note, prefix, names, clause, detail):
    os.makedirs(os.path.dirname(path), exist_ok=True)
    with open(path, "w") as f:
        json.dump(dict(property=prop, scenario=scen, note=spec_note, choices=prefix,
                       events=names, clause=clause, detail=detail), f, indent=1)
