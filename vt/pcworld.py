"""Real RTCPeerConnection objects on the virtual loop, joined by a harness-owned network.

`aiortc.rtcicetransport.Connection` (aioice) is replaced by `FakeConnection`, which has the same API
(gather_candidates, local_candidates, add_remote_candidate, connect, recv, send, close, get_event,
ice_controlling, credentials) and hands datagrams to the harness.  The real RTCIceGatherer /
RTCIceTransport / RTCDtlsTransport / RTCSctpTransport / RTP code runs on top of it.

Stand-ins fail the way the real thing fails: recv/send raise ConnectionError unless a pair is
nominated, connect() needs gathered candidates and remote credentials and pairs like ICE (a pair forms
when either side knows a candidate of the other and both are checking), close() wakes the receiver with
a ConnectionError and emits ConnectionClosed.
"""
import asyncio
import fractions
import queue as _queue
import threading as _threading
import time as _time
import types

import aioice
from aioice import Candidate

import aiortc.rtcicetransport as ICE
import aiortc.rtcrtpreceiver as RX
from aiortc.mediastreams import MediaStreamTrack

from .loop import VLoop, HarnessError

_REAL_CONNECTION = ICE.Connection
_REAL_THREADING = RX.threading
_REAL_QUEUE = RX.queue


class Network:
    """All fake connections of one world; delivers datagrams (auto = as soon as sent, FIFO)."""

    def __init__(self, loop, auto=True):
        self.loop = loop
        self.auto = auto
        self.conns = []
        self.wire = []           # (src conn, dst conn, data) when not auto
        self.sent = 0
        self.cut = set()         # connections whose traffic is silently discarded (peer vanished)
        self.check_latency = 0.0 # virtual seconds a connect() spends before it can pair
        self.count_from = None   # value of `sent` at the marked instant (C19: when close() starts)
        self.drop_index = None
        self.dropped = None
        self.counter = 0

    def register(self, conn):
        self.counter += 1
        conn.index = self.counter
        self.conns.append(conn)

    def send(self, src, data):
        dst = src.peer
        self.sent += 1
        if dst is None or src in self.cut or dst in self.cut:
            return
        if self.count_from is not None:
            # one deviation after a marked instant: the drop_index-th datagram sent from then on is lost
            k = self.sent - self.count_from - 1
            if k == self.drop_index:
                self.dropped = (src.index, len(data))
                return
        if self.auto:
            self.loop.call_soon(self._deliver, dst, data)
        else:
            self.wire.append((src, dst, data))

    def _deliver(self, dst, data):
        if not dst.closed and dst.nominated:
            dst.queue.put_nowait(data)

    def deliver_next(self):
        src, dst, data = self.wire.pop(0)
        self._deliver(dst, data)


_current_network = None


class FakeConnection:
    def __init__(self, ice_controlling, components=1, local_username=None, local_password=None, **kwargs):
        net = _current_network
        if net is None:
            raise HarnessError("FakeConnection created outside a PcWorld")
        self.net = net
        net.register(self)
        self.ice_controlling = ice_controlling
        self.local_username = local_username or ("u%03d" % self.index)
        self.local_password = local_password or ("password%014d" % self.index)
        self.remote_username = None
        self.remote_password = None
        self.remote_is_lite = False
        self._local = []
        self._remote = []
        self._remote_end = False
        self.gathered = False
        self.checking = False
        self.nominated = False
        self.closed = False
        self._wake = asyncio.Event()     # set by close(): a connect() in progress fails at once, as aioice's does
        self.peer = None
        self.queue = asyncio.Queue()
        self._event_waiter = None
        self._pending_events = []

    # ---- candidates
    @property
    def local_candidates(self):
        return self._local[:]

    @property
    def remote_candidates(self):
        return self._remote[:]

    async def gather_candidates(self):
        if not self.gathered:
            self._local = [Candidate(foundation="f%d" % self.index, component=1, transport="udp", priority=2130706431,
                                     host="10.0.0.%d" % (self.index % 250 + 1), port=40000 + self.index, type="host")]
            self.gathered = True

    async def add_remote_candidate(self, candidate):
        if self._remote_end:
            raise ValueError("Cannot add remote candidate after end-of-candidates.")
        if candidate is None:
            self._remote_end = True
            return
        self._remote.append(candidate)

    def _addr(self):
        return [(c.host, c.port) for c in self._local]

    def _knows(self, other):
        return any((c.host, c.port) in other._addr() for c in self._remote)

    # ---- connect
    async def connect(self):
        if not self.gathered:
            raise ConnectionError("Local candidates gathering was not performed")
        if self.remote_username is None or self.remote_password is None:
            raise ConnectionError("Remote username or password is missing")
        self.checking = True
        loop = asyncio.get_event_loop()
        if self.net.check_latency:
            # connectivity checks take time: whoever calls in meanwhile finds ICE "in progress"
            await asyncio.sleep(self.net.check_latency)
        deadline = loop.time() + 5.0
        while True:
            if self.closed:
                raise ConnectionError("ICE negotiation failed")
            if self.nominated:
                return
            for other in self.net.conns:
                if other is self or other.closed or not other.checking or not other.gathered:
                    continue
                if other.peer is not None and other.peer is not self:
                    continue
                if not (self._knows(other) or other._knows(self)):
                    continue
                if other.remote_username != self.local_username or self.remote_username != other.local_username:
                    continue
                self.peer, other.peer = other, self
                self.nominated = other.nominated = True
                return
            if loop.time() >= deadline:
                raise ConnectionError("ICE negotiation failed")
            try:
                await asyncio.wait_for(self._wake.wait(), 0.02)
            except asyncio.TimeoutError:
                pass

    # ---- data
    async def recv(self):
        if not self.nominated:
            raise ConnectionError("Cannot receive data, not connected")
        data = await self.queue.get()
        if data is None:
            raise ConnectionError("Connection lost while receiving data")
        return data

    async def send(self, data):
        if not self.nominated:
            raise ConnectionError("Cannot send data, not connected")
        self.net.send(self, data)

    # ---- events / close
    def _emit(self, event):
        if self._event_waiter is not None and not self._event_waiter.done():
            w, self._event_waiter = self._event_waiter, None
            w.set_result(event)
        else:
            self._pending_events.append(event)

    async def get_event(self):
        assert self._event_waiter is None, "already awaiting event"
        if self._pending_events:
            return self._pending_events.pop(0)
        if self.closed:
            return None
        self._event_waiter = asyncio.get_event_loop().create_future()
        return await asyncio.shield(self._event_waiter)

    async def close(self):
        self.nominated = False
        self.checking = False
        self._local = []
        if not self.closed:
            self.closed = True
            self._wake.set()
            self.queue.put_nowait(None)
            self._emit(aioice.ConnectionClosed())


class _NoThread:
    def __init__(self, *a, **kw):
        pass

    def start(self):
        pass

    def join(self, *a):
        pass


class SyncQueue(_queue.Queue):
    """The decoder worker's input queue, instrumented so that the harness can wait until the worker thread is idle
    (blocked in get() with nothing outstanding).  With a wait after every event-loop step the real thread's effects
    (run_coroutine_threadsafe) always land at the same place in the callback order: the thread is real, its timing is owned."""
    registry = []

    def __init__(self, *a, **kw):
        super().__init__(*a, **kw)
        self.outstanding = 0
        self.first_get = True
        self.worker = None
        self.lock = _threading.Lock()
        self.gate = _threading.Event()      # closed gate: the worker is held before it handles the next item (a backlog builds up)
        self.gate.set()
        self.slow = 0.0                     # seconds of real time each item costs once the gate has been re-opened
        SyncQueue.registry.append(self)

    def put(self, item, *a, **kw):
        with self.lock:
            self.outstanding += 1
        super().put(item, *a, **kw)

    def get(self, *a, **kw):
        with self.lock:
            if not self.first_get:
                self.outstanding -= 1       # back for more: the previous item has been dealt with completely
            self.first_get = False
        item = super().get(*a, **kw)
        self.gate.wait()
        if self.slow:
            _time.sleep(self.slow)
        return item

    def busy(self):
        # (a held worker, and one that is working through its backlog after having been released by join(), is not waited
        # for: whoever joins it waits - or does not, which is the point of that family)
        return self.gate.is_set() and not self.slow and self.outstanding > 0 and self.worker is not None and self.worker.is_alive()


class SyncThread(_threading.Thread):
    registry = []

    def __init__(self, *a, **kw):
        super().__init__(*a, **kw)
        self.queue = None
        for x in kw.get("args", ()):
            if isinstance(x, SyncQueue):
                x.worker = self
                self.queue = x
        SyncThread.registry.append(self)

    def join(self, timeout=None):
        # whoever waits for the worker lets a held worker go: it now works through its backlog, slowly
        if self.queue is not None and not self.queue.gate.is_set():
            self.queue.slow = 0.03
            self.queue.gate.set()
        return super().join(timeout)


def hold_decoders():
    """From now on every decoder worker is held before its next item: frames queue up behind it."""
    for q in SyncQueue.registry:
        q.gate.clear()


def sync_threads(max_wall=20.0):
    """Wait (real time) until every decoder worker is idle or gone."""
    t0 = None
    for q in SyncQueue.registry:
        while q.busy():
            if t0 is None:
                t0 = _time.monotonic()
            elif _time.monotonic() - t0 > max_wall:
                raise HarnessError("decoder worker still busy after %.0f s of wall time" % max_wall)
            _time.sleep(0.0002)


_ENCODED = {}


def encoded_frames(kind):
    """Three genuinely valid encoded frames (Opus / VP8 key frames), made once with the library's own encoders."""
    import av
    from aiortc.codecs import CODECS, depayload, get_encoder
    if kind in _ENCODED:
        return _ENCODED[kind]
    codec = CODECS[kind][0]
    enc = get_encoder(codec)
    out = []
    for k in range(3):
        if kind == "audio":
            f = av.AudioFrame(format="s16", layout="stereo", samples=960)
            for pl in f.planes:
                pl.update(bytes(pl.buffer_size))
            f.sample_rate = 48000
            f.pts = k * 960
            f.time_base = fractions.Fraction(1, 48000)
            payloads, ts = enc.encode(f)
        else:
            f = av.VideoFrame(width=64, height=48, format="yuv420p")
            for pl in f.planes:
                pl.update(bytes(pl.buffer_size))
            f.pts = k * 3000
            f.time_base = fractions.Fraction(1, 90000)
            payloads, ts = enc.encode(f, force_keyframe=True)
        out.append(b"".join(depayload(codec, pl) for pl in payloads))
    _ENCODED[kind] = out
    return out


class PacketTrack(MediaStreamTrack):
    """A track that produces already encoded packets on the virtual clock (20 ms audio, 40 ms video): the sender packetises
    them with Encoder.pack() on the loop - media flows end to end without encoder executor threads."""

    def __init__(self, kind):
        super().__init__()
        self.kind = kind
        self.n = 0
        self.frames = encoded_frames(kind)

    async def recv(self):
        import av
        from aiortc.mediastreams import MediaStreamError
        if self.readyState != "live":
            raise MediaStreamError
        await asyncio.sleep(0.02 if self.kind == "audio" else 0.04)
        pkt = av.Packet(self.frames[self.n % len(self.frames)])
        if self.kind == "audio":
            pkt.pts, pkt.time_base = self.n * 960, fractions.Fraction(1, 48000)
        else:
            pkt.pts, pkt.time_base = self.n * 3600, fractions.Fraction(1, 90000)
        self.n += 1
        return pkt


class PendingTrack(MediaStreamTrack):
    """A track whose recv() never completes (media flow is not this harness's business)."""

    def __init__(self, kind):
        super().__init__()
        self.kind = kind

    async def recv(self):
        await asyncio.get_event_loop().create_future()


class _Ids:
    """Deterministic stand-ins for uuid.uuid4 / random16 / random32 inside the peer-connection stack: the identifiers that end
    up in SDP (cname, stream and track ids, SSRCs) and the SCTP tags / initial TSNs are the same in every world of every run."""

    def __init__(self):
        self.n = 0

    def uuid4(self):
        self.n += 1
        return "00000000-0000-4000-8000-%012d" % self.n

    def random32(self):
        self.n += 1
        return (0x10000000 + self.n * 0x01010101) & 0xFFFFFFFF

    def random16(self):
        self.n += 1
        return (0x1000 + self.n * 0x0101) & 0xFFFF


def _id_seams(ids):
    """(module, attribute, replacement) - restored by PcWorld.close()."""
    import aiortc.mediastreams as MS
    import aiortc.rtcpeerconnection as PC
    import aiortc.rtcrtpsender as TX
    import aiortc.rtcsctptransport as SC
    fake_uuid = types.SimpleNamespace(uuid4=ids.uuid4)
    import aiortc.clock as CLK
    # the o= line of every description carries the NTP second of its creation: a fixed one
    fake_clock = types.SimpleNamespace(**{k: getattr(CLK, k) for k in dir(CLK) if not k.startswith("_")})
    fake_clock.current_ntp_time = lambda: 3_900_000_000 << 32
    return [(MS, "uuid", fake_uuid), (PC, "uuid", fake_uuid), (TX, "uuid", fake_uuid), (PC, "clock", fake_clock),
            (TX, "random16", ids.random16), (TX, "random32", ids.random32), (SC, "random32", ids.random32)]


class PcWorld:
    def __init__(self, auto=True, real_decoder_thread=False):
        global _current_network
        self.loop = VLoop().install()
        self.net = Network(self.loop, auto=auto)
        _current_network = self.net
        ICE.Connection = FakeConnection
        self._saved = []
        for mod, attr, repl in _id_seams(_Ids()):
            self._saved.append((mod, attr, getattr(mod, attr)))
            setattr(mod, attr, repl)
        if not real_decoder_thread:
            RX.threading = types.SimpleNamespace(Thread=_NoThread)
        elif real_decoder_thread == "sync":
            SyncQueue.registry = []
            SyncThread.registry = []
            RX.threading = types.SimpleNamespace(Thread=SyncThread)
            RX.queue = types.SimpleNamespace(Queue=SyncQueue)
        self.pcs = []

    def pc(self, configuration=None):
        from aiortc import RTCPeerConnection
        p = RTCPeerConnection(configuration)
        self.pcs.append(p)
        return p

    def run(self, coro, max_time=120.0):
        return self.loop.run_until(coro, max_time=max_time)

    def settle(self, max_time=30.0, max_cb=500000):
        """Default policy: run callbacks and timers until nothing is left before the horizon."""
        start = self.loop.time()
        n0 = self.loop.callbacks_run
        while True:
            self.loop.drain()
            if not self.net.auto:
                while self.net.wire:
                    self.net.deliver_next()
                    self.loop.drain()
            when = self.loop.next_timer_when()
            if when is None or when - start > max_time:
                return
            self.loop.fire_next_timer()
            if self.loop.callbacks_run - n0 > max_cb:
                raise HarnessError("settle: callback budget exceeded")

    def close(self):
        global _current_network
        try:
            for p in self.pcs:
                try:
                    self.loop.run_until(p.close(), max_time=60.0)
                except Exception:
                    pass
            for t in self.loop.pending_tasks():
                t.cancel()
            try:
                self.loop.drain()
            except Exception:
                pass
        finally:
            ICE.Connection = _REAL_CONNECTION
            for mod, attr, orig in self._saved:
                setattr(mod, attr, orig)
            RX.threading = _REAL_THREADING
            RX.queue = _REAL_QUEUE
            for q in SyncQueue.registry:
                q.gate.set()            # never leave a held worker behind
            SyncQueue.registry = []
            _current_network = None
            self.loop.uninstall()
