"""Bounded-exhaustive enumeration helpers (E-enum) and result bookkeeping shared by the
non-scheduling checks.

A check splits its finite space into *tasks* (picklable arguments of a module-level function);
each task returns a `Tally`.  Nothing is drawn at random: the seed only rotates the order in
which tasks are visited.
"""
import hashlib
import multiprocessing as mp
import os
import traceback


class Tally:
    """What one task (or the whole check) covered."""

    def __init__(self):
        self.evaluations = 0          # cases pushed through the real code
        self.distinct = 0             # distinct non-trivial cases (measured: see `seen`)
        self.seen = set()             # 8-byte digests of cases (dropped when merged with keep_seen=False)
        self.violations = {}          # signature -> dict(clause, detail, count, replay)
        self.samples = []
        self.counters = {}            # free-form named counters (e.g. per family)
        self.transitions = 0          # oracle comparisons / model steps (>= evaluations)

    # ---- recording
    def case(self, key=None, n=1):
        """Count one evaluated case. `key` (bytes/str/tuple) identifies it for distinctness;
        key=None means distinct by construction."""
        self.evaluations += n
        if key is None:
            self.distinct += n
        else:
            if not isinstance(key, bytes):
                key = repr(key).encode()
            d = hashlib.blake2b(key, digest_size=8).digest()
            if d not in self.seen:
                self.seen.add(d)
                self.distinct += 1

    def count(self, name, n=1):
        self.counters[name] = self.counters.get(name, 0) + n

    def sample(self, s, limit=4):
        if len(self.samples) < limit:
            self.samples.append(s)

    def violation(self, signature, clause, detail, replay):
        cur = self.violations.get(signature)
        if cur is None:
            self.violations[signature] = dict(clause=clause, detail=str(detail)[:600], count=1, replay=replay)
        else:
            cur["count"] += 1

    # ---- merging
    def merge(self, o, max_samples=8):
        self.evaluations += o.evaluations
        self.transitions += o.transitions
        before = len(self.seen)
        self.seen |= o.seen
        # distinct-by-construction cases add up; keyed ones are re-deduplicated across tasks
        keyed_o = len(o.seen)
        self.distinct += (o.distinct - keyed_o) + (len(self.seen) - before)
        for k, v in o.counters.items():
            self.counters[k] = self.counters.get(k, 0) + v
        for sig, v in o.violations.items():
            cur = self.violations.get(sig)
            if cur is None:
                self.violations[sig] = v
            else:
                cur["count"] += v["count"]
        for s in o.samples:
            if len(self.samples) < max_samples:
                self.samples.append(s)


def _call(args):
    modname, fname, task = args
    try:
        import importlib
        mod = importlib.import_module(modname)
        return ("ok", getattr(mod, fname)(task))
    except BaseException as e:  # noqa
        return ("err", "%s: %s\n%s" % (type(e).__name__, e, traceback.format_exc()))


def pmap(modname, fname, tasks, seed=0, workers=None, serial=False):
    """Run module function `fname(task) -> Tally` over all tasks; returns the merged Tally."""
    from .loop import HarnessError
    tasks = list(tasks)
    total = Tally()
    if not tasks:
        return total
    k = seed % len(tasks)
    tasks = tasks[k:] + tasks[:k]
    workers = workers or min(16, os.cpu_count() or 1)
    if serial or workers == 1 or len(tasks) == 1:
        for t in tasks:
            st, payload = _call((modname, fname, t))
            if st != "ok":
                raise HarnessError("task failed: " + payload)
            total.merge(payload)
        return total
    ctx = mp.get_context("fork")
    with ctx.Pool(workers) as pool:
        for st, payload in pool.imap_unordered(_call, [(modname, fname, t) for t in tasks], chunksize=1):
            if st != "ok":
                raise HarnessError("task failed: " + payload)
            total.merge(payload)
    return total


def result(pid, tally, rule, assumptions, level="model_checking", exhaustive=True, extra=None, states=None,
           min_distinct=10):
    """Turn a Tally into the dict the runner expects."""
    viol = []
    for sig, v in sorted(tally.violations.items()):
        viol.append(dict(signature="%s|%s" % (pid, sig), clause=v["clause"], detail=v["detail"],
                         count=v["count"], replay=v["replay"]))
    cov = dict(
        evaluations=tally.evaluations,
        distinct_nontrivial=tally.distinct,
        states=states if states is not None else tally.distinct,
        transitions=max(tally.transitions, tally.evaluations),
        traces_validated_against_impl=tally.evaluations,
        rule=rule,
        samples=tally.samples[:8] or ["(none)"],
        exhaustive=exhaustive,
        counters=dict(sorted(tally.counters.items())),
    )
    if extra:
        cov.update(extra)
    res = dict(level=level, coverage=cov, violations=viol, assumptions=assumptions)
    if tally.distinct < min_distinct:
        res["harness_error"] = "VACUOUS: only %d distinct cases" % tally.distinct
    return res


def exc_name(e):
    return type(e).__name__
