"""Glue between E-sched property modules and the runner."""
import importlib

from .explore import explore_parallel, run_one, deviations


def run_sched(modname, pid, scen_bounds, seed, rule, assumptions, budget_s=None, min_states=10):
    mod = importlib.import_module(modname)
    results = explore_parallel(modname, scen_bounds, seed=seed, budget_s=budget_s)
    total_exec = total_trans = 0
    canons = set()
    digests = 0
    by_dev = {}
    per_scen = {}
    violations = []
    samples = []
    replays = 0
    capped = False
    menu_hist = {}
    for (scen, bound) in scen_bounds:
        st = results[scen]
        total_exec += st.executions
        total_trans += st.transitions
        canons |= st.canons
        digests += len(st.digests)
        replays += st.replays
        capped = capped or getattr(st, "capped", False)
        for k, v in st.by_dev.items():
            by_dev[str(k)] = by_dev.get(str(k), 0) + v
        for k, v in st.menu_hist.items():
            menu_hist[str(k)] = menu_hist.get(str(k), 0) + v
        per_scen[scen] = dict(bound=bound, executions=st.executions, states=len(st.canons),
                              distinct_traces=len(st.digests), max_points=st.max_points,
                              by_deviations={str(k): v for k, v in sorted(st.by_dev.items())})
        for s in st.samples[:2]:
            samples.append(dict(scenario=scen, deviations=s))
        factory, oracle, signature = mod.scenario(scen)
        for sig, v in sorted(st.violations.items(), key=lambda kv: (kv[1]["devs"], len(kv[1]["prefix"]))):
            r = run_one(factory, oracle, v["prefix"], describe=True)
            violations.append(dict(
                signature="%s|%s|%s" % (pid, scen, sig), clause=v["clause"], detail=v["detail"], count=v["count"],
                replay=dict(module=modname, scenario=scen, choices=v["prefix"], deviations=v["devs"],
                            events=r.names, reproduced=bool(r.violations))))
    if not samples:
        # always show what an explored schedule looks like
        scen = scen_bounds[0][0]
        factory, oracle, signature = mod.scenario(scen)
        r = run_one(factory, oracle, [], describe=True)
        samples.append(dict(scenario=scen, schedule=r.names[:40]))
    cov = dict(
        states=len(canons), transitions=total_trans, traces_validated_against_impl=total_exec,
        executions=total_exec, distinct_observation_traces=digests, by_deviations=by_dev,
        max_deviations_completed=max(b for _, b in scen_bounds), determinism_replays=replays,
        menu_size_histogram=menu_hist, scenarios=per_scen, samples=samples[:8], rule=rule,
        exhaustive=not capped, capped=capped,
    )
    res = dict(level="model_checking", coverage=cov, violations=violations, assumptions=assumptions)
    if len(canons) < min_states:
        res["harness_error"] = "VACUOUS: only %d distinct states" % len(canons)
    return res


def replay_sched(rep):
    r = rep["replay"]
    mod = importlib.import_module(r["module"])
    factory, oracle, signature = mod.scenario(r["scenario"])
    res = run_one(factory, oracle, r["choices"], describe=True)
    for i, (n, c) in enumerate(zip(res.names, res.choices)):
        print("%3d %s %s" % (i, "*" if c else " ", n))
    if res.violations:
        for clause, detail in res.violations:
            print("FAILS clause=%s: %s" % (clause, detail))
        return 1
    print("no violation on this schedule")
    return 0
