"""Runner: /verif/check <ID> [--tier quick|thorough] [--replay file]

Exit 0: property held on everything explored (KNOWN-FINDING lines allowed);
exit 1 + `VIOLATION property=<id> replay=<path>`: a violation not listed as an open finding;
exit 2: harness error (nondeterminism, vacuous exploration, crash of the machinery).
"""
import argparse
import hashlib
import importlib
import json
import os
import re
import subprocess
import sys
import time
import traceback

ROOT = os.path.dirname(os.path.dirname(os.path.abspath(__file__)))
EVID = os.path.join(ROOT, "evidence")
REPLAYS = os.path.join(ROOT, "replays")
FINDINGS = os.path.join(ROOT, "known_findings.json")
SCHEMA = "/root/.vp/EVIDENCE.schema.json"


def load_findings(pid):
    try:
        with open(FINDINGS) as f:
            data = json.load(f)
    except FileNotFoundError:
        return []
    return [e for e in data.get("findings", []) if e.get("property") == pid and e.get("status") == "open"]


def match_finding(findings, signature):
    for e in findings:
        if re.fullmatch(e["match"], signature):
            return e
    return None


def validate_evidence(path):
    if not os.path.exists(SCHEMA):
        return True
    code = (
        "import json,sys,jsonschema;"
        "jsonschema.validate(json.load(open(sys.argv[1])), json.load(open(sys.argv[2])))"
    )
    try:
        p = subprocess.run(["python3-vt", "-c", code, path, SCHEMA], capture_output=True, text=True, timeout=60)
    except (FileNotFoundError, subprocess.TimeoutExpired):
        return True
    if p.returncode != 0:
        sys.stderr.write("evidence does not validate:\n" + p.stderr[-2000:] + "\n")
        return False
    return True


def selftest():
    import asyncio
    from vt.loop import VLoop
    loop = VLoop().install()
    seen = []

    async def a():
        await asyncio.sleep(5)
        seen.append(loop.time())
        q = asyncio.Queue()
        loop.call_later(2, q.put_nowait, 1)
        seen.append(await asyncio.wait_for(q.get(), 10))

    loop.run_until(a())
    assert seen == [5.0, 1] and loop.time() == 7.0, seen
    import aiortc
    print("selftest ok: virtual loop works; aiortc from", os.path.dirname(aiortc.__file__))
    sys.stdout.flush()
    os._exit(0)


def main(argv=None):
    ap = argparse.ArgumentParser()
    ap.add_argument("pid")
    ap.add_argument("--tier", default=os.environ.get("VERIF_TIER", "quick"), choices=["quick", "thorough"])
    ap.add_argument("--replay")
    ap.add_argument("--no-evidence", action="store_true")
    args = ap.parse_args(argv)
    pid = args.pid.upper()
    if pid == "SELFTEST":
        selftest()
    try:
        seed = int(os.environ.get("VERIF_SEED", "0"))
    except ValueError:
        seed = 0
    mod = importlib.import_module("props." + pid.lower())
    if args.replay:
        with open(args.replay) as f:
            rep = json.load(f)
        rc = mod.replay(rep)
        sys.stdout.flush()
        os._exit(rc)
    t0 = time.time()
    try:
        res = mod.run(args.tier, seed)
    except Exception as e:
        traceback.print_exc()
        print("HARNESS-ERROR property=%s %s: %s" % (pid, type(e).__name__, str(e)[:300]))
        sys.stdout.flush()
        os._exit(2)
    wall = time.time() - t0
    findings = load_findings(pid)
    unknown = 0
    known = 0
    os.makedirs(REPLAYS, exist_ok=True)
    lines = []
    for v in res.get("violations", []):
        sig = v["signature"]
        e = match_finding(findings, sig)
        if e is not None:
            known += 1
            lines.append("KNOWN-FINDING: property=%s %s [%s x%d]" % (pid, e["what"], sig, v.get("count", 1)))
            continue
        unknown += 1
        h = hashlib.sha1((sig + json.dumps(v.get("replay"), sort_keys=True, default=str)).encode()).hexdigest()[:10]
        path = os.path.join(REPLAYS, "%s-%s.json" % (pid, h))
        with open(path, "w") as f:
            json.dump(dict(property=pid, signature=sig, clause=v.get("clause"), detail=v.get("detail"),
                           count=v.get("count", 1), replay=v.get("replay")), f, indent=1, default=str)
        lines.append("  clause=%s x%d: %s" % (v.get("clause"), v.get("count", 1), str(v.get("detail"))[:300]))
        lines.append("VIOLATION property=%s replay=%s" % (pid, path))
    cov = res["coverage"]
    ev = dict(
        property_id=pid, tier=args.tier, seed=seed, level=res.get("level", "model_checking"),
        coverage=cov, assumptions=res.get("assumptions", []), wall_s=round(wall, 3),
        violations=unknown, known_findings_reported=known,
    )
    if not args.no_evidence:
        os.makedirs(EVID, exist_ok=True)
        path = os.path.join(EVID, pid + ".json")
        tmp = path + ".tmp"
        with open(tmp, "w") as f:
            json.dump(ev, f, indent=1, default=str)
        os.replace(tmp, path)
        if not validate_evidence(path):
            print("HARNESS-ERROR property=%s evidence file invalid" % pid)
            sys.stdout.flush()
            os._exit(2)
    for l in lines:
        print(l)
    summary = {k: v for k, v in cov.items() if isinstance(v, (int, float, bool))}
    print("%s tier=%s seed=%d wall=%.1fs %s violations=%d known=%d" % (
        pid, args.tier, seed, wall, json.dumps(summary), unknown, known))
    if res.get("harness_error"):
        print("HARNESS-ERROR property=%s %s" % (pid, res["harness_error"]))
        sys.stdout.flush()
        os._exit(2)
    sys.stdout.flush()
    os._exit(1 if unknown else 0)


if __name__ == "__main__":
    main()
