"""Two real RTCSctpTransport objects joined by a harness-owned wire on a virtual loop.

Used by C01, C02, C06, C13, C17 (E-sched).  A *world* is one execution in progress: it
offers a canonical-order menu of enabled events at every quiescent point, choice 0 being the
default environment answer, and applies the chosen one.
"""
import asyncio
import hashlib
import struct

from .loop import VLoop, VClock, Counter32, HarnessError

import aiortc.rtcsctptransport as S
from aiortc.rtcdatachannel import RTCDataChannel, RTCDataChannelParameters

_ORIG = {"time": S.time, "random32": S.random32, "os": S.os}


class _FakeOs:
    def __init__(self):
        self.n = 0

    def urandom(self, n):
        self.n += 1
        return bytes((self.n * 37 + i) & 0xFF for i in range(n))


class FakeIce:
    def __init__(self, role):
        self.role = role


class FakeDtls:
    """Stand-in for RTCDtlsTransport exposing exactly what RTCSctpTransport uses."""

    def __init__(self, world, name, role):
        self.world = world
        self.name = name
        self.state = "connected"
        self.transport = FakeIce(role)
        self.receiver = None

    def _register_data_receiver(self, receiver):
        assert self.receiver is None
        self.receiver = receiver

    def _unregister_data_receiver(self, receiver):
        if self.receiver == receiver:
            self.receiver = None

    async def _send_data(self, data):
        if self.state != "connected":
            raise ConnectionError("Cannot send encrypted data, not connected")
        self.world._wire_send(self.name, data)


class Datagram:
    __slots__ = ("seq", "src", "data", "dup")

    def __init__(self, seq, src, data, dup=False):
        self.seq = seq
        self.src = src
        self.data = data
        self.dup = dup


def describe_datagram(data):
    try:
        _, _, _, chunks = S.parse_packet(data)
    except Exception:
        return "garbage[%d]" % len(data)
    out = []
    for c in chunks:
        n = type(c).__name__.replace("Chunk", "")
        if isinstance(c, S.DataChunk):
            n += "(tsn=%d,sid=%d,sseq=%d,fl=%d,len=%d)" % (
                c.tsn, c.stream_id, c.stream_seq, c.flags, len(c.user_data))
        elif isinstance(c, S.SackChunk):
            n += "(cum=%d,gaps=%s,dups=%d)" % (c.cumulative_tsn, list(c.gaps), len(c.duplicates))
        elif isinstance(c, S.ForwardTsnChunk):
            n += "(cum=%d,streams=%s)" % (c.cumulative_tsn, c.streams)
        out.append(n)
    return "+".join(out) or "nochunk"


class ChannelView:
    """Harness-side record of one logical channel (both ends)."""

    def __init__(self, label, spec):
        self.label = label
        self.spec = spec
        self.ends = {}          # side -> RTCDataChannel
        self.sent = {"A": [], "B": []}      # messages accepted by send() on that side
        self.recv = {"A": [], "B": []}      # messages delivered on that side
        self.events = {"A": [], "B": []}    # (event name, readyState)
        self.states = {"A": [], "B": []}    # readyState history (changes only)

    @property
    def reliable(self):
        return self.spec.get("maxRetransmits") is None and self.spec.get("maxPacketLifeTime") is None

    @property
    def ordered(self):
        return self.spec.get("ordered", True)


class SctpWorld:
    """spec keys:
    channels: list of dict(label, creator 'A'|'B', negotiated id|None, ordered, maxRetransmits,
              maxPacketLifeTime, protocol)
    script:   list of steps; a step is a list of ops, an op is a tuple:
              ('send', side, label, payload) | ('create', label) | ('close', side, label) |
              ('stop', side) | ('threshold', side, label, n)
    create_at: 'before_start' | 'established' (when channels not mentioned in script are made)
    faults_from: 'start' | 'established'
    tsn: {'A': int, 'B': int}  initial TSNs ;  tags
    sseq: preset stream sequence numbers {label: n} (both ends, consistently)
    horizon: virtual seconds after last deviation
    """

    def __init__(self, spec):
        self.spec = spec
        self.loop = VLoop().install()
        self.clock = VClock(self.loop)
        S.time = self.clock
        tsn = spec.get("tsn", {})
        # order of random32() calls: A.tag, A.tsn, B.tag, B.tsn
        S.random32 = Counter32([
            0x11111111, tsn.get("A", 1000), 0x22222222, tsn.get("B", 5000)])
        self._prestart = list(spec.get("prestart", []))
        S.os = _FakeOs()
        self.wire = []
        self.wire_seq = 0
        self.sent_count = {"A": 0, "B": 0}
        self.point = 0
        self.script = [list(s) for s in spec.get("script", [])]
        self.script_pos = 0
        self.last_fault_time = 0.0
        self.horizon = spec.get("horizon", 600.0)
        self.max_points = spec.get("max_points", 3000)
        self.stalled = False
        self.channels = {}          # label -> ChannelView
        self.dc_events = {"A": [], "B": []}   # 'datachannel' events: channel objects
        self.log = []               # observation trace (no raw sequence numbers)
        self.op_errors = []         # exceptions raised by application operations
        # the ICE controlling side is the SCTP client; spec["client"] selects which end that is
        self.client = spec.get("client", "A")
        self.server = "B" if self.client == "A" else "A"
        self.dtls = {self.client: FakeDtls(self, self.client, "controlling"),
                     self.server: FakeDtls(self, self.server, "controlled")}
        self.anchors = list(spec.get("anchors", []))
        if not hasattr(self, "op_hook"):
            self.op_hook = None      # called as op_hook(world, op, "before"|"after")
        self.sctp = {
            "A": S.RTCSctpTransport(self.dtls["A"]),
            "B": S.RTCSctpTransport(self.dtls["B"]),
        }
        for side in "AB":
            self.sctp[side].on("datachannel", self._on_datachannel(side))
        self.faults_enabled = False
        self.started = False
        self._chspec = {c["label"]: c for c in spec.get("channels", [])}
        self.delivery_hook = None
        setup = spec.get("setup", "explored")   # explored | established | settled
        auto = [c["label"] for c in spec.get("channels", []) if not c.get("scripted")]
        if spec.get("create_at", "established") == "before_start":
            for label in auto:
                self._create(label)
            auto = []
        for op in self._prestart:
            self._do_op(op)
        self._start()
        if setup == "explored":
            if auto:
                self.script.insert(0, [("create", label) for label in auto])
        else:
            self.run_default_until(self.both_established)
            while self.wire:
                self.apply(self.menu()[0])
            for label in auto:
                self._create(label)
            self.loop.drain()
            if setup == "settled":
                while self.wire:
                    self.apply(self.menu()[0])
        self.faults_enabled = True
        self.point = 0
        self._preset_sseq()

    # ------------------------------------------------------------------ set-up
    def activate(self):
        """Make this world the current one (needed when two worlds are alive at once)."""
        S.time = self.clock
        self.loop.install()

    def close(self):
        self.activate()
        S.time = _ORIG["time"]
        S.random32 = _ORIG["random32"]
        S.os = _ORIG["os"]
        for t in self.loop.pending_tasks():
            t.cancel()
        try:
            self.loop.drain()
        except Exception:
            pass
        self.loop.dead_tasks()
        self.loop.uninstall()

    def _start(self):
        caps = S.RTCSctpCapabilities(maxMessageSize=65536)
        # server first so that it is registered before the INIT arrives
        for side in (self.server, self.client):
            self.loop.create_task(self.sctp[side].start(caps, 5000))
        self.loop.drain()
        self.started = True

    def both_established(self):
        E = S.RTCSctpTransport.State.ESTABLISHED
        return all(self.sctp[s]._association_state == E for s in "AB")

    def _preset_sseq(self):
        # the state after n messages on a stream: sender's outbound counter and receiver's
        # expected sequence number, set consistently before any data flows
        for label, n in self.spec.get("sseq", {}).items():
            c = self._chspec[label]
            sid = c["negotiated"]
            for side in "AB":
                self.sctp[side]._outbound_stream_seq[sid] = n
                self.sctp[side]._get_inbound_stream(sid).sequence_number = n

    def _on_datachannel(self, side):
        def cb(channel):
            self.dc_events[side].append(channel)
            view = self.channels.get(channel.label)
            self.log.append(("datachannel", side, channel.label, channel.id, self.point))
            if view is not None and side not in view.ends:
                self._attach(view, side, channel)
        return cb

    def _attach(self, view, side, channel):
        view.ends[side] = channel
        view.states[side].append(channel.readyState)

        def on_message(m, view=view, side=side):
            view.recv[side].append(m)
            self.log.append(("message", side, view.label, _msgkey(m), self.point))

        channel.on("message", on_message)
        for ev in ("open", "close", "bufferedamountlow"):
            channel.on(ev, lambda ev=ev, view=view, side=side, channel=channel: self._on_chan_event(view, side, channel, ev))

    def _on_chan_event(self, view, side, channel, ev):
        view.events[side].append((ev, channel.readyState, channel.bufferedAmount))
        self.log.append((ev, side, view.label, self.point))

    def _create(self, label):
        c = self._chspec[label]
        view = ChannelView(label, c)
        self.channels[label] = view
        sides = "AB" if c.get("negotiated") is not None else c.get("creator", "A")
        for side in sides:
            params = RTCDataChannelParameters(
                label=label,
                maxPacketLifeTime=c.get("maxPacketLifeTime"),
                maxRetransmits=c.get("maxRetransmits"),
                ordered=c.get("ordered", True),
                protocol=c.get("protocol", ""),
                negotiated=c.get("negotiated") is not None,
                id=c.get("negotiated"),
            )
            ch = RTCDataChannel(self.sctp[side], params)
            self._attach(view, side, ch)

    # ------------------------------------------------------------------ wire
    def _wire_send(self, src, data):
        self.wire_seq += 1
        self.sent_count[src] += 1
        self.wire.append(Datagram(self.wire_seq, src, data))

    def _deliver(self, dg):
        dst = "B" if dg.src == "A" else "A"
        rx = self.dtls[dst].receiver
        if rx is not None:
            if self.delivery_hook:
                self.delivery_hook(dst, dg.data)
            self.loop.create_task(rx._handle_data(dg.data))
        self.loop.drain()

    # ------------------------------------------------------------------ ops
    def _do_op(self, op):
        kind = op[0]
        if self.op_hook:
            self.op_hook(self, op, "before")
        try:
            self._do_op_inner(op)
        finally:
            if self.op_hook:
                self.op_hook(self, op, "after")

    def _do_op_inner(self, op):
        kind = op[0]
        try:
            if kind == "send":
                _, side, label, payload = op
                view = self.channels[label]
                ch = view.ends.get(side)
                if ch is None or ch.readyState != "open":
                    self.log.append(("send-skipped", side, label, self.point))
                    return
                ch.send(payload)
                view.sent[side].append(payload)
            elif kind == "create":
                self._create(op[1])
            elif kind == "close":
                _, side, label = op
                ch = self.channels[label].ends.get(side)
                if ch is not None:
                    ch.close()
                    self.log.append(("close-called", side, label, self.point))
            elif kind == "stop":
                self.loop.create_task(self.sctp[op[1]].stop())
            elif kind == "threshold":
                _, side, label, n = op
                self.channels[label].ends[side].bufferedAmountLowThreshold = n
            elif kind == "call":
                op[1](self)
            else:
                raise HarnessError("unknown op %r" % (op,))
        except HarnessError:
            raise
        except Exception as e:  # an application-visible exception: recorded, judged by oracle
            self.op_errors.append((tuple(str(x)[:40] for x in op[:3]), type(e).__name__ + ": " + str(e)[:80]))

    def _run_step(self):
        step = self.script[self.script_pos]
        self.script_pos += 1
        for op in step:
            self._do_op(op)
        self.loop.drain()

    # ------------------------------------------------------------------ menu
    def _timer_ok(self):
        tw = self.loop.next_timer_when()
        return tw is not None and (tw - self.last_fault_time) <= self.horizon

    def menu(self):
        """Canonical-order list of (name, cost, key). Empty list = terminal."""
        if self.point >= self.max_points:
            self.stalled = True
            return []
        wire = self.wire
        script_ready = self.script_pos < len(self.script)
        timer_ok = self._timer_ok()
        ev = []
        due = script_ready and self._step_due()
        if due:
            ev.append(("op", 0, ("op",)))
            if wire:
                ev.append(("deliver-first", 1, ("deliver", wire[0].seq)))
        elif wire:
            ev.append(("deliver", 0, ("deliver", wire[0].seq)))
        elif script_ready:
            ev.append(("op", 0, ("op",)))
        elif timer_ok:
            ev.append(("timer", 0, ("timer",)))
        else:
            if self.loop.next_timer_when() is not None:
                self.stalled = True  # timers keep firing beyond the horizon: never quiescent
            return []
        if not self.faults_enabled:
            return ev
        for d in "AB":
            q = [dg for dg in wire if dg.src == d]
            if not q:
                continue
            if q[0] is not wire[0]:
                ev.append(("deliver-head:" + d, 1, ("deliver", q[0].seq)))
            ev.append(("drop:" + d, 1, ("drop", q[0].seq)))
            if not q[0].dup:
                ev.append(("dup:" + d, 1, ("dup", q[0].seq)))
            if len(q) >= 2:
                ev.append(("deliver-2nd:" + d, 1, ("deliver", q[1].seq)))
            if len(q) >= 3:
                ev.append(("deliver-3rd:" + d, 1, ("deliver", q[2].seq)))
        if wire and timer_ok:
            ev.append(("timer-first", 1, ("timer",)))
        if wire and script_ready and not due:
            ev.append(("op-first", 1, ("op",)))
        return ev

    def _step_due(self):
        """An anchored step runs as soon as the execution has reached its anchor point, in-flight datagrams or not."""
        i = self.script_pos
        return i < len(self.anchors) and self.anchors[i] is not None and self.point >= self.anchors[i]

    def describe(self, ev):
        name, cost, key = ev
        if key[0] in ("deliver", "drop", "dup"):
            dg = self._find(key[1])
            return "%s %s>%s %s" % (name, dg.src, "B" if dg.src == "A" else "A", describe_datagram(dg.data))
        if key[0] == "op":
            return "%s %r" % (name, [tuple(_short(x) for x in op) for op in self.script[self.script_pos]])
        if key[0] == "timer":
            return "%s @%.3f" % (name, self.loop.next_timer_when())
        return name

    def _find(self, seq):
        for dg in self.wire:
            if dg.seq == seq:
                return dg
        raise HarnessError("datagram %d not on wire" % seq)

    def apply(self, ev):
        name, cost, key = ev
        self.point += 1
        if cost:
            self.last_fault_time = self.loop.time()
        k = key[0]
        if k == "deliver":
            dg = self._find(key[1])
            self.wire.remove(dg)
            self._deliver(dg)
        elif k == "drop":
            self.wire.remove(self._find(key[1]))
        elif k == "dup":
            dg = self._find(key[1])
            i = self.wire.index(dg)
            self.wire_seq += 1
            # deliver now, keep a copy in flight in the same position
            self.wire[i] = Datagram(dg.seq, dg.src, dg.data, dup=True)
            self._deliver(dg)
        elif k == "op":
            self._run_step()
        elif k == "timer":
            self.loop.fire_next_timer()
        else:
            raise HarnessError("unknown event %r" % (ev,))

    # ------------------------------------------------------------------ default policy
    def run_default(self, max_points=None):
        """Run the default policy to the terminal point (fault-free)."""
        n = 0
        while True:
            m = self.menu()
            if not m:
                return n
            self.apply(m[0])
            n += 1
            if max_points is not None and n >= max_points:
                return n

    def run_default_until(self, pred, max_points=500):
        n = 0
        while not pred():
            m = self.menu()
            if not m:
                raise HarnessError("default policy ended before condition")
            self.apply(m[0])
            n += 1
            if n > max_points:
                raise HarnessError("condition not reached under the default policy")

    # ------------------------------------------------------------------ observation
    def task_failures(self):
        out = []
        for t, e in self.loop.dead_tasks():
            co = t.get_coro()
            out.append("%s: %s: %s" % (getattr(co, "__qualname__", "?"), type(e).__name__, str(e)[:100]))
        return out

    def quiescent_summary(self, side):
        s = self.sctp[side]
        return dict(
            state=s.state,
            sent_queue=len(s._sent_queue),
            outbound_queue=len(s._outbound_queue),
            dc_queue=len(s._data_channel_queue),
            flight=s._flight_size,
            cwnd=s._cwnd,
        )

    def canon(self):
        """Cheap canonical state digest (for counting distinct states)."""
        h = hashlib.blake2b(digest_size=8)
        now = self.loop.time()
        for side in "AB":
            s = self.sctp[side]
            h.update(struct.pack(
                "!iqqqqqqqq??",
                s._association_state.value,
                s._local_tsn, (s._last_received_tsn or 0), s._last_sacked_tsn,
                s._advanced_peer_ack_tsn,
                s._flight_size, s._cwnd, len(s._outbound_queue), len(s._data_channel_queue),
                s._fast_recovery_exit is not None, s._forward_tsn_chunk is not None))
            for c in s._sent_queue:
                h.update(struct.pack("!q??q", c.tsn, c._acked, c._abandoned, c._sent_count * 4 + c._misses))
                h.update(b"r" if c._retransmit else b"n")
            h.update(repr(sorted(s._sack_misordered)).encode())
            for sid in sorted(s._inbound_streams):
                st = s._inbound_streams[sid]
                h.update(struct.pack("!qqq", sid, st.sequence_number, len(st.reassembly)))
                for c in st.reassembly:
                    h.update(struct.pack("!q", c.tsn))
            for th in (s._t1_handle, s._t2_handle, s._t3_handle):
                h.update(struct.pack("!d", round(th._when - now, 6) if th is not None else -1.0))
            h.update(struct.pack("!d", s._rto))
            for cid in sorted(s._data_channels):
                ch = s._data_channels[cid]
                h.update(("%d:%s:%d" % (cid, ch.readyState, ch.bufferedAmount)).encode())
        for dg in self.wire:
            h.update(dg.src.encode())
            h.update(dg.data)
        h.update(struct.pack("!ii", self.script_pos, len(self.log)))
        return h.digest()

    def trace_digest(self):
        return hashlib.blake2b(repr(self.log).encode(), digest_size=8).hexdigest()


def _msgkey(m):
    if isinstance(m, str):
        return ("s", len(m), hashlib.md5(m.encode()).hexdigest()[:8])
    return ("b", len(m), hashlib.md5(m).hexdigest()[:8])


def _short(x):
    if isinstance(x, (bytes, str)) and len(x) > 12:
        return "%s[%d]" % (type(x).__name__, len(x))
    return x
