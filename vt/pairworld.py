"""Differential world: the same schedule applied to two worlds that differ only in their
sequence-number origins.  Menus must have the same shape; observations must be identical."""


class PairWorld:
    def __init__(self, w1, w2, shape):
        self.w1 = w1
        self.w2 = w2
        self.shape = shape          # function(world) -> comparable summary without raw sequence numbers
        self.divergence = None

    def menu(self):
        self.w1.activate()
        m1 = self.w1.menu()
        self.w2.activate()
        m2 = self.w2.menu()
        n1 = [(e[0], e[1]) for e in m1]
        n2 = [(e[0], e[1]) for e in m2]
        if n1 != n2:
            self.divergence = "enabled events differ: base %s vs shifted %s" % (
                [n for n, _ in n1], [n for n, _ in n2])
            return []
        return [(a[0], a[1], (a[2], b[2])) for a, b in zip(m1, m2)]

    def describe(self, ev):
        name, cost, (k1, k2) = ev
        return self.w2.describe((name, cost, k2))

    def apply(self, ev):
        name, cost, (k1, k2) = ev
        self.w1.activate()
        self.w1.apply((name, cost, k1))
        self.w2.activate()
        self.w2.apply((name, cost, k2))

    def canon(self):
        return self.w2.canon()

    def trace_digest(self):
        return self.w1.trace_digest()

    def close(self):
        try:
            self.w1.close()
        finally:
            self.w2.close()

    def compare(self):
        if self.divergence:
            return [("origin/divergent-schedule", self.divergence)]
        if self.w1.log != self.w2.log:
            a, b = self.w1.log, self.w2.log
            i = 0
            while i < min(len(a), len(b)) and a[i] == b[i]:
                i += 1
            return [("origin/observations-differ",
                     "observation #%d: base %r vs shifted %r" % (
                         i, a[i] if i < len(a) else None, b[i] if i < len(b) else None))]
        s1, s2 = self.shape(self.w1), self.shape(self.w2)
        if s1 != s2:
            return [("origin/state-shape-differs", "base %r vs shifted %r" % (s1, s2))]
        return []
