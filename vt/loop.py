"""Virtual-time asyncio loop owned by the harness.

The harness pops `_ready` and `_scheduled` itself: `drain()` runs callbacks until none is
ready (a *quiescent point*); `fire_next_timer()` advances virtual time to the earliest live
timer and runs it.  Stock Task / Queue / Event / wait_for / call_later work unchanged.
"""
import asyncio
import heapq
from asyncio import events


class HarnessError(Exception):
    """A failure of the harness itself (never a verdict)."""


class VLoop(asyncio.BaseEventLoop):
    def __init__(self):
        super().__init__()
        self._vtime = 0.0
        self.tasks = []          # every task ever created on this loop (strong refs)
        self.exc_log = []        # contexts passed to the loop exception handler
        self.callbacks_run = 0
        self.set_task_factory(self._factory)
        self.set_exception_handler(lambda loop, ctx: self.exc_log.append(ctx))
        self._checked_tasks = 0

    # -- BaseEventLoop plumbing -------------------------------------------------
    def time(self):
        return self._vtime

    def _process_events(self, event_list):  # pragma: no cover - never called
        pass

    def _write_to_self(self):
        pass

    def _factory(self, loop, coro, **kw):
        t = asyncio.Task(coro, loop=loop, **kw)
        self.tasks.append(t)
        return t

    # -- installation -----------------------------------------------------------
    def install(self):
        events._set_running_loop(self)
        asyncio.set_event_loop(self)
        return self

    def uninstall(self):
        events._set_running_loop(None)
        asyncio.set_event_loop(None)

    # -- stepping ---------------------------------------------------------------
    def step(self):
        """Run exactly one ready callback. Returns False if none was ready."""
        while self._ready:
            h = self._ready.popleft()
            if h._cancelled:
                continue
            self.callbacks_run += 1
            h._run()
            return True
        return False

    def drain(self, limit=200000):
        n = 0
        while self._ready:
            h = self._ready.popleft()
            if h._cancelled:
                continue
            self.callbacks_run += 1
            h._run()
            n += 1
            if n > limit:
                raise HarnessError("drain limit exceeded (runaway callbacks)")
        return n

    def next_timer_when(self):
        while self._scheduled and self._scheduled[0]._cancelled:
            h = heapq.heappop(self._scheduled)
            h._scheduled = False
        if self._scheduled:
            return self._scheduled[0]._when
        return None

    def live_timers(self):
        return sorted(
            (h._when for h in self._scheduled if not h._cancelled)
        )

    def fire_next_timer(self):
        when = self.next_timer_when()
        if when is None:
            return False
        h = heapq.heappop(self._scheduled)
        h._scheduled = False
        if when > self._vtime:
            self._vtime = when
        self.callbacks_run += 1
        h._run()
        self.drain()
        return True

    def advance(self, dt):
        """Advance virtual time by dt firing every timer that becomes due, in order."""
        target = self._vtime + dt
        while True:
            when = self.next_timer_when()
            if when is None or when > target:
                break
            self.fire_next_timer()
        self._vtime = target
        self.drain()

    def run_until(self, fut, max_time=3600.0, max_cb=2_000_000):
        """Default policy: run ready callbacks, then timers, until fut is done."""
        fut = asyncio.ensure_future(fut, loop=self)
        start = self._vtime
        n0 = self.callbacks_run
        while not fut.done():
            if self._ready:
                self.step()
            elif self.next_timer_when() is not None:
                if self.next_timer_when() - start > max_time:
                    raise HarnessError("run_until: virtual time horizon exceeded")
                self.fire_next_timer()
            else:
                raise HarnessError("run_until: future pending but nothing to run (deadlock)")
            if self.callbacks_run - n0 > max_cb:
                raise HarnessError("run_until: callback budget exceeded")
        return fut.result()

    # -- task failure inspection -----------------------------------------------------
    def dead_tasks(self):
        """Tasks that finished with an exception since the last call."""
        out = []
        tasks = self.tasks
        keep = []
        for t in tasks:
            if t.done():
                if not t.cancelled():
                    e = t.exception()
                    if e is not None:
                        out.append((t, e))
            else:
                keep.append(t)
        self.tasks = keep
        return out

    def pending_tasks(self):
        self.tasks = [t for t in self.tasks if not t.done()]
        return list(self.tasks)


class VClock:
    """Stand-in for the `time` module inside aiortc modules."""

    EPOCH = 1_700_000_000.0

    def __init__(self, loop):
        self.loop = loop

    def time(self):
        return self.EPOCH + self.loop.time()

    def monotonic(self):
        return self.loop.time()

    def sleep(self, s):  # pragma: no cover
        raise HarnessError("blocking sleep inside aiortc")


class Counter32:
    """Deterministic replacement for random32()/random16()."""

    def __init__(self, values=None, start=1000, step=7919):
        self.values = list(values or [])
        self.n = start
        self.step = step

    def __call__(self):
        if self.values:
            return self.values.pop(0)
        self.n = (self.n + self.step) & 0xFFFFFFFF
        return self.n
