import json,sys,glob
pat = sys.argv[1]
lim = int(sys.argv[2]) if len(sys.argv)>2 else 40
for f in sorted(glob.glob('/verif/replays/%s*.json'%pat)):
    r=json.load(open(f))
    print('=====',f, r['signature'], 'x', r['count'])
    print(r['detail'])
    rp=r['replay']
    if 'events' in rp:
        ch = rp['choices']+[0]*10000
        for i,n in enumerate(rp['events'][:lim]):
            print('%3d %s %s'%(i,'*' if ch[i] else ' ',n))
    else:
        print(json.dumps(rp)[:2000])
