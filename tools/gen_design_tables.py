#!/venv/bin/python
"""Regenerates sections 10 and 11 of DESIGN.md from seeded/*/meta.json and known_findings.json."""
import glob, json, os, re
ROOT = os.path.dirname(os.path.dirname(os.path.abspath(__file__)))
p = os.path.join(ROOT, "DESIGN.md")
s = open(p).read()
marker = "## 10. Seeded property-breaking changes"
if marker in s:
    s = s[:s.index(marker)]
out = [marker + " and the checks that catch them\n"]
out.append("""
Each change below was written by a fresh sub-agent that was given only the text of one property and its own scratch
worktree of `/repo` (nothing from `/verif`); it had to keep the whole 495-test suite green and come with a demonstration that
fails with the change and passes without it. Every change was confirmed here (`tools/confirm_mutant.sh`: demo on the clean
tree, patch applied, demo again, whole suite with the patch) before being kept as `/verif/seeded/<id>/` (`patch.diff`,
`demo.py`, `note.md`, `meta.json`). Checks are run against a change with `tools/try_seeded.sh` (apply to `/repo`, run, revert).
"MISSED at first" entries say what the check lacked and what was added; after strengthening, every kept change is
reported as a VIOLATION by at least one quick-tier check, on every run. The changes came in eight waves (the last a short one); the share that a
check missed at first fell from wave to wave on the codec-like properties (C04-C08, C16, C17: 1 of 17 in their second wave) and
stayed around one in three on the stateful ones (C03, C09, C13, C19), which is where the later waves went. `seeded/REGRESSION.md`
is the latest re-run of **every** kept change against the current checks and tree (`tools/regress_seeded.py`); changes that a
later repair of `/repo` made harmless are in `seeded/_discarded/` with the reason.

| change | property | what it needs in order to manifest | caught by |
|---|---|---|---|
""")
def _natural(path):
    import re as _r
    m = _r.match(r"C(\d+)-m(\d+)", os.path.basename(path))
    return (int(m.group(1)), int(m.group(2))) if m else (999, 0)


for d in sorted(glob.glob(os.path.join(ROOT, "seeded", "C*")), key=_natural):
    mp = os.path.join(d, "meta.json")
    if not os.path.exists(mp):
        continue
    m = json.load(open(mp))
    needs = (m.get("needs_to_manifest") or "").replace("|", "/")
    # (the note's heading "Needed to manifest:" was cut mid-word by the extraction regex)
    import re as _re
    needs = _re.sub(r"^(ed|s|ed to manifest|something specific)\s*(to manifest)?\s*(\([^)]*\))?\s*:\s*", "", needs).strip()
    if len(needs) > 260:
        needs = needs[:257] + "..."
    by = "; ".join("%s: %s" % (x["check"], x["result"]) for x in m.get("detected_by", [])).replace("|", "/")
    out.append("| %s | %s | %s | %s |\n" % (m["id"], m["property"], needs or "(see note.md)", by))
out.append("""
Lessons that changed the machinery: drivers matter more than depth (C01-m1, C02-m2, C06-m1, C10-m3, C13-m3, C14-m3 and C18-m1
were all missed for want of one driver / symbol / start state, never for want of deviations); a terminal oracle that returns
early hides whole classes (C02-m3); data-dependent corruptions are not covered by structured patterns (C08-m2); a check must
survive what it is looking for (C08-m3 hung the check, C17-m2 crashed its state digest).

## 11. Genuine defects found on the unchanged tree

Every entry was first reported by a check with a replay file against the real code, triaged per section 4, and either
repaired by one minimal `fix:` commit in `/repo` (the unedited test suite still passes: 495 passed) or recorded as an open
known finding with a signature narrow enough that a different violation of the same clause still alarms.
`known_findings.json` is the authoritative list; `fixed` entries suppress nothing.

| property | status | commit | what failed |
|---|---|---|---|
""")
kf = json.load(open(os.path.join(ROOT, "known_findings.json")))
for e in kf["findings"]:
    what = re.sub(r"^fixed: property=C\d+ ", "", e["what"]).replace("|", "/")
    out.append("| %s | %s | %s | %s |\n" % (e["property"], e["status"], e.get("commit", "-"), what))
out.append("""
One defect (the flight-size leak, C06/C02) was first seen by a sub-agent's random run on the unmodified code, not by the
checks: the terminal oracle of C02/C06 was then strengthened (nothing outstanding implies flight size 0) and finds it at k = 1.
""")
open(p, "w").write(s.rstrip("\n") + "\n\n" + "".join(out))
print("DESIGN.md sections 10/11 regenerated:", len(glob.glob(os.path.join(ROOT, "seeded", "C*"))), "seeded,", len(kf["findings"]), "findings")
