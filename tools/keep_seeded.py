#!/venv/bin/python
"""keep_seeded.py <mutant dir> <seeded id> <property> <confirm log> <detected-by json>
Copies patch.diff, demo.py, note.md into /verif/seeded/<id>/ and writes meta.json."""
import json, os, re, shutil, sys
src, sid, prop, log, detected = sys.argv[1:6]
dst = os.path.join("/verif/seeded", sid)
os.makedirs(dst, exist_ok=True)
for f in ("patch.diff", "demo.py", "note.md"):
    shutil.copy(os.path.join(src, f), os.path.join(dst, f))
m = os.path.basename(src.rstrip("/"))
confirm = None
for line in open(log):
    if line.startswith("RESULT %s " % m):
        confirm = line.strip()
note = open(os.path.join(src, "note.md")).read()
needs = ""
mm = re.search(r"(?is)needs?:?\s*(.+?)(\n\n|\nCommands|\n- change|\Z)", note)
if mm:
    needs = " ".join(mm.group(1).split())[:700]
meta = dict(
    id=sid, property=prop, origin="independent sub-agent given only the property text and a scratch worktree",
    files=sorted(set(re.findall(r"^\+\+\+ b/(\S+)", open(os.path.join(src, "patch.diff")).read(), re.M))),
    needs_to_manifest=needs,
    confirmed=dict(how="tools/confirm_mutant.sh in the sub-agent's scratch worktree: demo on clean tree, patch applied, demo again, whole test suite with the patch",
                   result=confirm),
    detected_by=json.loads(detected),
)
json.dump(meta, open(os.path.join(dst, "meta.json"), "w"), indent=1)
print("kept", dst, "|", confirm)
