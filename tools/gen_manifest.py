#!/venv/bin/python
"""Regenerates /verif/MANIFEST.json from the table below (kept in one place so it is always valid)."""
import json, os
ROOT = os.path.dirname(os.path.dirname(os.path.abspath(__file__)))

CHECKS = {
 "C02": dict(
   level="model_checking",
   technique="stateless deviation-bounded model checking of the real RTCSctpTransport pair under a virtual-time loop and harness-owned wire",
   text="Every execution of 12 traffic drivers (incl. both TSN spaces starting at the wrap, stream sequence numbers at 65534, a partially reliable channel larger than cwnd next to the reliable one) with at most k (quick 2, thorough 3) network/timer deviations from the default FIFO policy is run on the real implementation; after the fault prefix the default policy is the healed network and the terminal oracle requires drained queues, bufferedAmount 0, complete delivery and a probe burst each way. Exhaustive within the stated bound, which is the unit the stall mechanisms live in (two lost datagrams and a timer).",
   note="DTLS replaced by a stand-in (state/_send_data/_register_data_receiver); transport send never suspends; clocks/random seams replaced by module attributes; bound k on deviations, 600 virtual seconds horizon.",
   design="2/C02"),
}
CHECKS["C01"] = dict(
   level="model_checking",
   technique="stateless deviation-bounded model checking of the real RTCSctpTransport pair (virtual-time loop, harness-owned wire); safety oracle at every quiescent point",
   text="Every execution of 14 message-mix drivers (DCEP and negotiated channels, ordered/unordered, str/bytes/empty/multi-fragment, both roles, up to 3 concurrent channels, a 20-fragment message, a stream id re-used after close, TSN and stream sequence spaces starting at the wrap, partially reliable and lifetime-limited channels alongside) with at most k (quick 1-2, thorough 2-4) drop/dup/reorder/timer/operation deviations is run on the real code and the exactly-once/in-order/intact clause is evaluated at every quiescent point.",
   note="DTLS replaced by a stand-in; transport send never suspends; deviation bound k; payload values are channel-tagged patterns.",
   design="2/C01")
CHECKS["C06"] = dict(
   level="model_checking",
   technique="stateless deviation-bounded model checking of the real RTCSctpTransport pair with reliable and partially reliable channels used concurrently",
   text="Every execution of 9 drivers mixing reliable, maxRetransmits and maxPacketLifeTime channels (ordered/unordered, messages larger than cwnd, an older reliable chunk outstanding in front, abandoned messages straddling the 16-bit stream sequence wrap) with at most k (quick 2, thorough 3) deviations; at every point whole-message/exact-copy/no-dup/order on partially reliable channels and the C01 clause on reliable ones; at the healed terminal point reliable traffic complete, queues drained and a fresh message delivered on every channel.",
   note="DTLS stand-in; send never suspends; deviation bound k; expiry driven by the virtual clock.",
   design="2/C06")
CHECKS["C17"] = dict(
   level="model_checking",
   technique="differential stateless deviation-bounded model checking (same schedule applied to two real associations / RTP receive pipelines that differ only in sequence-number origins) plus exhaustive enumeration of serial-number comparison pairs",
   text="Every explored schedule (<= k deviations; quick 1-2, thorough 2-3) of 10 SCTP drivers (one resetting two streams per side) is executed simultaneously on two real associations differing only in initial TSNs (2^32-1/-3/-8, hence RE-CONFIG sequence numbers) and stream sequence origins (65533..65535); enabled menus, observation logs, queue shapes and terminal verdicts must be identical. RTP side: jitter buffer, NACK generator, receiver statistics and sender history are driven through exhaustive arrival trees from small and near-wrap origins and compared. Serial arithmetic: all 2^32 16-bit pairs (thorough) / all a x 640 boundary offsets (quick), 32-bit boundary product.",
   note="DTLS stand-in; send never suspends; deviation bound k; origins taken from a listed set next to the wrap points.",
   design="2/C17")
CHECKS["C07"] = dict(
   level="model_checking",
   technique="bounded-exhaustive enumeration of packet values (finite products of boundary domains, all subsets of extensions / NACK sets) through the real serialiser and parser, compared field by field",
   text="Complete enumeration of finite products: RTP header fields at bounds x CSRC counts x padding x payload sizes; every configured-subset x set-subset of the 7 header extensions x 4 id maps incl. two-byte ids; value domains that flip one/two-byte form; SR/RR with 0..31 reports, SDES, BYE, PSFB, RTPFB and all compounds of length <= 3; NACK: 77 start pids at 0 and at the wrap x all subsets of the next 12 (quick) / 18 (thorough) sequence numbers in numeric and serial order, plus wire->parse for all 2^16 bitmasks at wrap pids; REMB for all bitrates < 2^20 and all exponents; loss saturation. Every case goes through the real code; the oracle is value equality / set equality mod 2^16 / the REMB error bound.",
   note="Values strictly between listed boundary values are not enumerated; RTP padding bytes are random by design and excluded.",
   design="2/C07")
CHECKS["C08"] = dict(
   level="model_checking",
   technique="bounded-exhaustive enumeration: all chunk field products / all user-data lengths / all parameter lengths through real serialize_packet+parse_packet, and all bit bursts (position x length x pattern) of one packet per chunk type against the real checksum test",
   text="Round trip: every chunk class x flags x boundary field products, DATA user data of every length 1..1200, parameter lists of 0-3 parameters with every value length 0..9, SACK gap/duplicate lists 0-4, FORWARD-TSN streams 0-4, RE-CONFIG parameter classes: field equality and byte-identical re-serialisation. Corruption: for one packet of each of the 15 chunk types every burst - all start bits x lengths 1..32 x all 2^(len-2) inner patterns for len <= 11 (quick) / 16 (thorough), 3 structured patterns above - must raise the checksum ValueError before any chunk object is constructed (CHUNK_TYPES is spied).",
   note="google_crc32c arithmetic trusted; values between listed boundaries not enumerated; bursts longer than the full-pattern bound use 3 structured inner patterns.",
   design="2/C08")
CHECKS["C16"] = dict(
   level="model_checking",
   technique="bounded-exhaustive enumeration of NAL-unit sequences and VP8 buffers (all sequences up to length 3 over boundary sizes, all lengths 0..3000, all 2^15 picture ids) through the real packetiser and depacketiser",
   text="Every sequence of 1-3 NAL units over the listed boundary sizes (around 1297..1301, multiples of the fragment size, 60000) x header bits x start-code forms, aggregation-count boundary sequences of up to 12 NALs, and every VP8 buffer length 0..3000 (+3897..3903, 60000) x picture ids at the 7/15-bit boundary go through the real pack()/depayload code; oracle: payload <= 1300, exact bitstream reconstruction, FU-A S/E markers and header bits, STAP-A members, VP8 S bit and picture id. Descriptor round trip over the complete field product including all 2^15 picture ids.",
   note="NAL bodies contain no zero bytes (emulation prevention is the encoder's job); sizes between listed boundaries not enumerated.",
   design="2/C16")
CHECKS["C12"] = dict(
   level="model_checking",
   technique="explicit-state breadth-first search to the fixpoint over the real RtpRouter (exact canonical state), every operation applied in every reachable state and compared with a reference model; shallow history search through the real RTCDtlsTransport handlers",
   text="All reachable states of the real RtpRouter for small universes (2-3 receivers, 1-2 senders, 2-3 SSRCs, 1-3 payload types) are enumerated by BFS with an exact canonical state (every attribute of the router); in each state the complete alphabet - register_receiver with every SSRC subset x payload-type subset, unregister, sender (un)registration, RTP with every (ssrc, pt), SR/RR/BYE/REMB with every SSRC subset, NACK, PLI, REMB with a media source and an SSRC list, SDES, malformed REMB - is applied to a copy of the real object and to a dict-based reference model and the answers compared; plus all histories of length <= 3 through RTCDtlsTransport._register_*/_handle_rtp_data/_handle_rtcp_data with serialised packets, comparing the callbacks invoked; and 48 compound RTCP datagrams whose first recipient's handler yields while the second packet's recipient is (or is not) unregistered.",
   note="Universe bounded as listed in the evidence; mid is not used for routing by the implementation.",
   design="2/C12")
CHECKS["C10"] = dict(
   level="model_checking",
   technique="explicit-state exploration of the real JitterBuffer as a complete depth-bounded tree of arrival sequences (all sequences up to depth D over a 14-symbol offset alphabet, from 3 start states), oracle on extended indices after every add; exhaustive bounded-displacement permutations for completeness",
   text="Every arrival sequence of length <= 4 (quick) / 5 (thorough), and one level deeper on 8 configurations, over offsets {+1,+2,+3,dup,-1,-2,-3,+cap-1,+cap,+cap+1,-99,-100,-101,+32767} relative to the highest sequence seen is applied to the real JitterBuffer from an empty, an almost full and an already overflowed buffer, for 96 configurations (capacity 4..128, prefetch 0..4, audio/video, first sequence number 0 / 65530, two frame-size patterns). After every add: no exception, occupancy, frame = consecutive received packets with one timestamp, no reuse / monotone order while nothing arrived >= 100 late, PLI on discard. Completeness over all bounded-displacement permutations with an in-order continuation, and already at the end of the stream for the orders in which no single arrival makes two frames releasable.",
   note="Extended indices kept by the harness; completeness demanded only for displacement bounds where the statement's premise certainly holds (see DESIGN 2/C10).",
   design="2/C10")
CHECKS["C18"] = dict(
   level="model_checking",
   technique="explicit-state exploration as a complete depth-bounded tree of arrival/report histories replayed on the real RTCRtpReceiver (virtual loop, clock seam), every emitted report compared with an RFC 3550 reference model; deeper tree on the bare StreamStatistics with per-node copies",
   text="Every history of length <= 5/4 (quick) or 6/5 (thorough) over 16 symbols (new frame, same timestamp, timestamp stepping backwards, losses, duplicate, late packets, +300 / +32767 jumps, arrival clock jumping back 1 s and being set forward by 10^9 s, timestamp jump, burst, report timer, second SSRC), from start sequence/timestamp at 0 and just before the 16/32-bit wrap, the arrival clock starting 50 ms below a multiple of 2^32 ticks, is replayed on a fresh real RTCRtpReceiver whose own _run_rtcp task emits the receiver report through a transport stand-in; every report block and getStats() is compared with a reference model written from RFC 3550 A.1/A.3/A.8, and the RTCP task must survive (every value fits its field). The same tree one level deeper (6/7) on the bare StreamStatistics object.",
   note="Decoder thread and RTCP interval randomness replaced through module-attribute seams; jitter pairing follows the implementation (statement leaves it open).",
   design="2/C18")
CHECKS["C15"] = dict(
   level="model_checking",
   technique="explicit-state exploration of the real RemoteBitrateEstimator as a complete depth-bounded tree of arrival phases (copy of the real object per node), oracle evaluated after every packet against a reference measurement",
   text="Every sequence of up to 4 (quick) / 5 (thorough) phases over 14 phase shapes (steady, bursts, growing and shrinking send-time lag, slow, zero-size payloads, idle periods longer than the window, a second SSRC; 50 packets each), one level deeper over the 8 shapes involving zero sizes/congestion/idling, from two send-clock origins (one placing the 24-bit abs-send-time wrap inside the run), is fed to the real estimator; after every packet: no exception, measurement equals the reference over exactly the last 1000 ms, estimate is an encodable non-negative int with the exact SSRC list, never rises above 1.5 x measurement + 10 kbit/s, and is <= 85 % of it on detected over-use.",
   note="Floating-point state: no deduplication (complete tree). Over-use premise read from the real detector. Two averaging-interval conventions accepted for the measurement (statement fixes the packets, not the divisor).",
   design="2/C15")
CHECKS["C13"] = dict(
   level="model_checking",
   technique="stateless deviation-bounded model checking of the real RTCSctpTransport/RTCDataChannel pair with the application program enumerated from a grammar (operations x anchors relative to association set-up x peer behaviour x roles x reliability), lifecycle oracle at every quiescent point",
   text="1 466 (quick) / 4 194 (thorough) programs - every script of <= 2/3 operations {create auto-id channel, create negotiated pair, send, send burst with threshold, close, stop} with anchors {before start, INIT in flight, COOKIE in flight, established, same instant} x peer behaviour {idle, echo then close, create at the same instant, create and close} x client/server role x reliability - all with both initial TSNs at 2^32-1 (TSNs and RE-CONFIG request sequence numbers wrap inside every program), each explored with all executions of <= 1 (<= 2 for short scripts in thorough and for four programs in quick) drop/dup/reorder/timer/operation deviations on the real code, plus 83 (label, protocol) pairs over Unicode. Oracle: one faithful datachannel event, id uniqueness, forward-only readyState with <= 1 open/close, exact bufferedAmount and bufferedamountlow crossings (amount read inside the handler at or below the threshold) at every point; after healing: closed on both ends, freed id re-usable under loss and unaffected by a late duplicate of the old reset request, all closed when the association ended.",
   note="DTLS stand-in; send never suspends; bufferedAmount reference read from the transport's message queue; empty messages (1 placeholder byte) allowed as slack.",
   design="2/C13")
CHECKS["C14"] = dict(
   level="model_checking",
   technique="explicit-state exploration of call histories: the complete tree of enabled operations up to depth D is enumerated on a JSEP reference model and every history is replayed on a fresh pair of real RTCPeerConnections, comparing outcome, state and side effects after every call",
   text="All call histories of length 5 (quick) / 6 (thorough) from the initial state and of length 3 / 4 from two non-initial states (a completed round by either peer, then addTransceiver), plus the close()-in-progress family (close() started, run to its first wait, and every call made while it is pending), over both peers x {createOffer, createAnswer, setLocal(own offer), setLocal(own answer), implicit setLocal, setRemote(peer's offer), setRemote(peer's answer), setRemote(answer with a dropped / re-typed m-section), setRemote(description without ice-ufrag / rtcp-mux, answer with actpass), close} are replayed on real peer connections (virtual loop, fake ICE); after every call the outcome class, signalingState and, for failed calls, unchanged signalingState/localDescription/remoteDescription and the absence of events are compared with the JSEP table; closed is absorbing.",
   note="aioice replaced by a fake connection; createOffer while a remote offer is pending left unconstrained; artefacts of an earlier round may be accepted or rejected with ValueError; events of successful calls are not constrained.",
   design="2/C14")
CHECKS["C03"] = dict(
   level="model_checking",
   technique="bounded-exhaustive enumeration of the configuration product; every configuration negotiated and connected between two real RTCPeerConnections on a virtual-time loop (fake ICE, real SDP/DTLS/SCTP), with follow-up negotiation rounds",
   text="The complete product {offerer media item (kind x direction x addTrack/addTransceiver x codec preferences) | none (thorough: two items)} x data channel x bundle policy x answerer pre-created transceivers {none, audio, video, both} x with/without track x data channel x bundle policy (4 842 quick / 120 078 thorough configurations; every one with media also against a peer that numbers payload types and header extensions differently and offers neither nack pli nor abs-send-time) plus four follow-up rounds (add the other kind, add a transceiver of the same kind, add a data channel, swap the offering side; also started early while ICE is still checking) is pushed through the real offer/answer code; oracle: no call raises, both stable, answer mirrors the offer's sections/BUNDLE/codecs/payload types/RTX pairing/rtcp-fb/header-extension ids, definite DTLS role, complementary directions, and the session connects: both connected, negotiated channels open, a message per channel delivered; per worker a reference configuration gives identical descriptions before and after all other sessions (nothing leaks between sessions).",
   note="aioice replaced by a fake connection that pairs like ICE; tracks never yield media; identifiers and the o= clock are deterministic seams.",
   design="2/C03")
CHECKS["C09"] = dict(
   level="model_checking",
   technique="bounded-exhaustive enumeration: every description generated over the C03 configuration product (compared with the live objects that produced it), a product of constructed descriptions, all single-line edits of those texts, and the full product of candidate-line shapes, through the real parser and serialiser",
   text="(a) every createOffer/createAnswer/localDescription text over the C03 quick product with follow-up rounds is a fixed point of parse-then-serialise and its parsed fields equal the live transceivers/senders/ICE gatherers/DTLS/SCTP objects at generation time; (b) constructed SessionDescription objects over present/absent x 2-3 values of every optional attribute and 1-3 sections are field-equal after a round trip; (c) every single line deletion, duplication and adjacent swap of those texts that the parser accepts is idempotent under one more round; (d) 103 680 candidate lines round-trip exactly, also through the signalling helpers, and parsed twice for two media sections (each parse its own object).",
   note="Texts rejected by the parser with an exception are out of scope here (C05); attribute values from 2-3 listed values each.",
   design="2/C09")
CHECKS["C19"] = dict(
   level="model_checking",
   technique="stateless exploration of interruption points: the scripted life of a real RTCPeerConnection pair is stepped one event-loop callback at a time and close() is injected at every cut index, for every closer, on the virtual-time loop; terminal oracle on states, events, tasks and threads",
   text="For 6 (quick) / 10 (thorough) connection shapes - one / three of them with encoded Opus / VP8 media flowing through the real, step-synchronised decoder threads - EVERY cut index of the life script (creation, offer/answer, ICE, real DTLS handshake, SCTP set-up, data messages, RTCP timers, the application closing a channel and stopping a transceiver itself and reopening a channel whenever one closes, finally an SCTP SHUTDOWN from the peer; every await boundary is a cut) x closers {A, B, both at once, A twice concurrently, A after its peer vanished}: replay to the cut, start close(), continue under the default policy. Oracle: close() completes within 30 virtual seconds, second close() is a no-op, signaling/ICE/connection states closed, every channel closed, received tracks ended and their consumers released, no event after completion, no task pending, no timer scheduled and no decoder thread alive once both sides are closed, no task died with an exception. Plus one lost datagram after the cut (each datagram sent once close() has started, in turn) and the decoder-backlog family (workers held before close(): no decoder thread may be running when close() returns).",
   note="aioice replaced by a fake connection (no consent-freshness timers); tracks produce no media or already encoded packets (no encoder executor threads); set iteration order over transports is address dependent, so a replay in another process may hit a neighbouring instant.",
   design="2/C19")
CHECKS["C04"] = dict(
   level="model_checking",
   technique="bounded-exhaustive enumeration of fingerprint lists, SRTP profile preference matrices, role assignments and single-bit corruptions, each run through two real RTCDtlsTransport objects performing the real OpenSSL handshake on the virtual loop",
   text="All fingerprint lists of length <= 2 (quick) / 3 (thorough) over a 24-entry alphabet derived from the peer's real certificate (three supported hashes x correct in three casings / wrong first or last digit / truncated, algorithm-name casing, unsupported algorithms) decide connected vs failed against the property's sentence, with a failed side handed nothing and refusing to send; every ordered SRTP profile list on each side x both role assignments connects iff the lists intersect and a battery of RTP/RTCP/data messages, one RTP and one RTCP datagram per possible first byte 0x80-0xBF included, arrives intact both ways; every single-bit flip of every protected battery datagram, every forged plaintext datagram and every protected datagram with a replaced body is discarded without taking the transport down.",
   note="Fault-free handshakes only (OpenSSL's DTLS timer reads the wall clock); ICE replaced by in-memory queues; payload values limited to the battery.",
   design="2/C04")
CHECKS["C11"] = dict(
   level="model_checking",
   technique="stateless deviation-bounded model checking of a real RTCRtpSender -> RTCDtlsTransport router -> RTCRtpReceiver pipeline on the virtual-time loop with a harness-owned network in both directions; safety oracle at every point, recovery oracle at the terminal point",
   text="20 scenarios (VP8 / H.264 x RTX negotiated or not x first sequence number and timestamp origin small or just before the wrap; frames of 1-8 packets, the 15-bit VP8 picture id wrapping inside the run) x all executions with <= k deviations (quick 1-2, thorough 2-3): drop / duplicate / reorder on the media and the feedback path, frame or timer first. Safety at every point: every buffer handed to the decoder is byte-identical to a sent frame (a tail only first or after a PLI), in sending order with consistent mapped timestamps, NACK <= 128 numbers, no task dies. Recovery (faults on first transmissions only, feedback and retransmissions get through, three more frames follow): every lost packet is NACKed and resent (as RTX iff negotiated), every frame reaches the decoder exactly once; in the burst17 / burst33 scenarios an outage swallowing 17 / 33 consecutive first transmissions is one deviation.",
   note="SRTP replaced by identity sessions; decoder thread replaced by a no-op and tapped at the decoder queue; packets sent before the first one the receiver ever sees are exempt (no gap is visible for them).",
   design="2/C11")
CHECKS["C05"] = dict(
   level="model_checking",
   technique="bounded-exhaustive enumeration of structure-aware input families (all short strings; every truncation, single-bit flip and boundary-byte replacement of seed packets with checksum/tag re-sealed; boundary products of every length/count/offset field) delivered to the real entry points in a set of protocol states reached by scripted prefixes, under a CPU watchdog",
   text="6.6 million datagrams (quick): 10 wire parsers (value or ValueError only); RTCSctpTransport._handle_data in 8 protocol states (before INIT, COOKIE-WAIT, COOKIE-ECHOED, established idle / data outstanding / reassembling / a gap before a held fragment / reset pending; the established ones also with both TSN spaces straddling 2^32) with mutations of 17 live packets and boundary products for chunk and parameter lengths, SACK gap blocks, TSNs around the live association, stream ids, PPIDs, DCEP lengths and invalid UTF-8, FORWARD TSN lists and bundled INIT; RTCDtlsTransport._handle_rtp_data/_handle_rtcp_data with a live receiver and sender behind the real router (extension id x length products, RTX payload sizes, descriptor truncations, RTCP count/length products, REMB counts); the empty datagram; the real decoder worker for five codecs x empty, tiny, garbage and oversized frames between valid ones. Oracle: no exception out of the entry point, 1 s CPU watchdog (a hit confirmed with 10 s on a fresh object) and a 300 s CPU budget per task, bounded container growth, rejected packets leave the association state unchanged, association only ended by ABORT/SHUTDOWN, valid traffic still flows afterwards.",
   note="All byte strings up to MTU cannot be enumerated: the claim is exactly the listed families. After packets that are valid for the live association and consume sequence space the follow-up exchange is not demanded (they ARE the peer as far as the protocol can tell).",
   design="2/C05")
NOT_YET = {}

def main():
    props = [json.loads(l) for l in open(os.path.join(ROOT, "properties.jsonl"))]
    checks = []
    na = []
    for p in props:
        pid = p["id"]
        c = CHECKS.get(pid)
        if c is None:
            na.append(dict(property_id=pid, reason=NOT_YET.get(pid, "check not built yet (work in progress); design in DESIGN.md section 2/" + pid)))
            continue
        checks.append(dict(
            property_id=pid,
            quick_cmd="./check %s --tier quick" % pid,
            thorough_cmd="./check %s --tier thorough" % pid,
            evidence_file="/verif/evidence/%s.json" % pid,
            replay_cmd_template="./check %s --replay {path}" % pid,
            engine=c.get("engine", "vt"),
            level_claimed=dict(category=c["level"], text=c["text"], design_ref=c["design"]),
            level_note=c["note"],
            technique=c["technique"],
        ))
    m = dict(
        version=1,
        setup_cmd="/venv/bin/python -m compileall -q /verif/vt /verif/props >/dev/null; cd /verif && ./check SELFTEST",
        hooks=dict(guard="AIORTC_VERIF", enable="no source hooks: every seam is a module attribute replaced from the harness; checks import aiortc from /repo's working tree (editable install in /venv)",
                   baseline_off_cmd="cd /repo && /venv/bin/python -m pytest -ra -q -p no:cacheprovider --timeout=900 --continue-on-collection-errors",
                   source_commits=[], add_only=True),
        engines=[dict(name="vt", path="/verif/vt", serves_properties=sorted(CHECKS),
                      kind_free_text="hand-written explicit-state / stateless deviation-bounded explorer for Python asyncio code (virtual-time loop, harness-owned wire, replay-from-scratch), BFS over operation histories with reference models, bounded-exhaustive enumerators")],
        checks=checks,
        not_applicable=na,
        notes="See DESIGN.md. Fixes of genuine defects are 'fix:' commits in /repo, listed as fixed in known_findings.json.",
    )
    with open(os.path.join(ROOT, "MANIFEST.json"), "w") as f:
        json.dump(m, f, indent=1)
    print("checks:", len(checks), "not_applicable:", len(na))

if __name__ == "__main__":
    main()
