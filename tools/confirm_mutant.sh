#!/bin/bash
# confirm_mutant.sh <worktree> <mutant-dir-name> : confirms a sub-agent's mutant in ITS scratch worktree
#  (a) patch applies, whole suite passes with it; (b) demo fails with it; (c) demo passes without it.
wt=$1; m=$2; d=$wt/mutants/$m
cd $wt || exit 2
git checkout -q -- src || exit 2
git apply --check $d/patch.diff || { echo "RESULT $m patch-does-not-apply"; exit 1; }
PYTHONPATH=$wt/src timeout 120 /venv/bin/python $d/demo.py >/tmp/confirm-$$.clean 2>&1; clean=$?
git apply $d/patch.diff
PYTHONPATH=$wt/src timeout 120 /venv/bin/python $d/demo.py >/tmp/confirm-$$.mut 2>&1; mut=$?
suite=$(PYTHONPATH=$wt/src /venv/bin/python -m pytest -q -p no:cacheprovider --timeout=900 tests/ 2>&1 | tail -1)
git checkout -q -- src
echo "RESULT $m demo_clean_exit=$clean demo_mutant_exit=$mut suite='$suite'"
tail -2 /tmp/confirm-$$.mut | sed 's/^/   mutant demo: /'
rm -f /tmp/confirm-$$.*
