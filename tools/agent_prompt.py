#!/venv/bin/python
"""Prints the prompt given to a mutant-writing sub-agent for one property (only the property text + worktree)."""
import json, sys
pid, wt = sys.argv[1], sys.argv[2]
n = sys.argv[3] if len(sys.argv) > 3 else "2"
for l in open('/verif/properties.jsonl'):
    p = json.loads(l)
    if p['id'] == pid:
        break
print(f"""You are helping test a verification effort for the open-source Python library aiortc (WebRTC/ORTC stack in pure asyncio Python).
You have your own scratch git worktree of the library at {wt} (a detached checkout of the current HEAD). Work ONLY inside {wt}. Never touch /repo or /verif and do not read anything under /verif.

Run the library from the worktree like this (the interpreter /venv/bin/python has all dependencies; PYTHONPATH makes it import your worktree's sources rather than the installed ones):
  cd {wt} && PYTHONPATH={wt}/src /venv/bin/python -m pytest -q -p no:cacheprovider --timeout=900 tests/            # whole suite, ~2-3 minutes, 495 tests
  cd {wt} && PYTHONPATH={wt}/src /venv/bin/python your_demo.py
There is no network access.

Here is a semantic property of aiortc that should hold on the unmodified code:

  id: {p['id']}
  title: {p['title']}
  statement: {p['statement']}
  quantifier: {p['quantifier']['text']}
  source files it is anchored in: {', '.join(p['anchors'].get('files', []))}

YOUR TASK: produce {n} DIFFERENT, independent, realistic changes (bugs) to the library source under {wt}/src/aiortc that each BREAK this property, while the code still imports and the ENTIRE existing test suite still passes (run it to be sure - all tests, not only one file). Each change must be the kind of mistake a developer could plausibly make in a refactoring or "optimisation" (an off-by-one, a wrong comparison, a missing reset, state updated in the wrong order, a forgotten wrap-around, a condition that is slightly too wide or narrow, two sites that each look fine alone) - small, a few lines, no new files in src, no test edits.
IMPORTANT: prefer changes that need something SPECIFIC to manifest - a particular interleaving or loss/reordering pattern, a fault at a particular point, a multi-step sequence of operations, an unusual input or boundary value, a wraparound - NOT ones that ordinary use would expose at once (those would fail the existing tests anyway).

For each change i (1..{n}) deliver, under {wt}/mutants/m<i>/ :
  - patch.diff : output of `git -C {wt} diff` for that change ALONE relative to HEAD (so it applies with `git apply` to a clean checkout). Produce each change separately: make change, verify, save diff, then `git -C {wt} checkout -- src` before the next one.
  - demo.py : a self-contained demonstration program (plain Python, may use asyncio and the library's internal classes, may simulate the network in-process; must not need network or pytest) that exits with status 0 and prints PASS on the UNMODIFIED code, and exits with non-zero status printing FAIL plus what went wrong when the change is applied. It must be deterministic and finish within 60 seconds.
  - note.md : 5-10 lines: which part of the property it breaks, what exactly is needed for the breakage to manifest, and the exact commands you ran with their results (test-suite summary line with the change applied; demo result with and without the change).

Verify everything yourself: (a) with the change applied the whole test suite passes; (b) demo.py FAILS with the change; (c) demo.py PASSES on the clean checkout. If a candidate change makes an existing test fail, discard it and find another. At the end leave the worktree's src clean (`git -C {wt} checkout -- src`) and reply with a short summary listing each mutant directory and one line about it.""")
