#!/venv/bin/python
"""regress_seeded.py [ids...] : re-applies every kept seeded change to /repo's working tree (one at a time, reverted straight
afterwards), runs the quick tier of the checks its meta.json names as detecting it, and writes seeded/REGRESSION.md.
A change whose patch no longer applies (the code it touches was changed by a later fix) is reported as such."""
import json, os, subprocess, sys, time
ROOT = "/verif/seeded"
ids = sys.argv[1:] or sorted(d for d in os.listdir(ROOT) if os.path.isfile(os.path.join(ROOT, d, "meta.json")))
rows = []
for sid in ids:
    d = os.path.join(ROOT, sid)
    meta = json.load(open(os.path.join(d, "meta.json")))
    patch = os.path.join(d, "patch-ported.diff")
    if not os.path.exists(patch):
        patch = os.path.join(d, "patch.diff")
    checks = []
    for e in meta["detected_by"]:
        if "VIOLATION" in e["result"] and e["check"] not in checks:
            checks.append(e["check"])
    subprocess.run(["git", "-C", "/repo", "checkout", "--", "."], check=True)
    ok = subprocess.run(["git", "-C", "/repo", "apply", "--check", patch], capture_output=True)
    if ok.returncode != 0:
        rows.append((sid, "patch no longer applies to the current tree", "-"))
        print(sid, "does not apply", flush=True)
        continue
    subprocess.run(["git", "-C", "/repo", "apply", patch], check=True)
    res = []
    t0 = time.time()
    try:
        for c in checks:
            p = subprocess.run(["/verif/check", c, "--tier", "quick", "--no-evidence"], capture_output=True, text=True, timeout=3000)
            n = p.stdout.count("VIOLATION property=")
            res.append("%s: %s" % (c, "detected (%d signatures)" % n if p.returncode == 1 and n else "NOT detected (rc=%d)" % p.returncode))
    finally:
        subprocess.run(["git", "-C", "/repo", "checkout", "--", "."], check=True)
    rows.append((sid, "; ".join(res), "%.0f s" % (time.time() - t0)))
    print(sid, res, flush=True)
# merge with the rows of an earlier run when only some ids were re-run
old_rows = {}
path = os.path.join(ROOT, "REGRESSION.md")
if sys.argv[1:] and os.path.exists(path):
    for line in open(path):
        parts = [x.strip() for x in line.strip().strip("|").split("|")]
        if len(parts) >= 2 and parts[0][:1] == "C" and "-m" in parts[0]:
            old_rows[parts[0]] = (parts[0], parts[1], parts[2] if len(parts) > 2 else "")
for r in rows:
    old_rows[r[0]] = r
rows = [old_rows[k] for k in sorted(old_rows) if os.path.isfile(os.path.join(ROOT, k, "meta.json"))] if old_rows else rows
with open(os.path.join(ROOT, "REGRESSION.md"), "w") as f:
    f.write("# Seeded changes re-run against the current checks and tree\n\n")
    f.write("Produced by `tools/regress_seeded.py` (each change applied to /repo's working tree alone, quick tier of the checks named in its meta.json, reverted).\n")
    f.write("/repo HEAD: %s\n\n" % subprocess.run(["git", "-C", "/repo", "log", "--oneline", "-1"], capture_output=True, text=True).stdout.strip())
    f.write("| change | result | time |\n|---|---|---|\n")
    for r in rows:
        f.write("| %s | %s | %s |\n" % r)
    nd = [r for r in rows if "NOT detected" in r[1]]
    f.write("\n%d changes, %d detected by every listed check, %d with a listed check that no longer detects them, %d whose patch no longer applies.\n" % (
        len(rows), len([r for r in rows if "detected" in r[1] and "NOT" not in r[1]]), len(nd), len([r for r in rows if r[1].startswith("patch no longer applies")])))
