#!/bin/bash
# try_seeded.sh <patch> <check ids...> : applies the patch to /repo, runs the quick checks, reverts. Never leaves /repo dirty.
patch=$1; shift
cd /repo || exit 2
[ -z "$(git status --porcelain)" ] || { echo "/repo dirty, refusing"; exit 2; }
git apply $patch || { echo "patch does not apply"; exit 2; }
trap 'git -C /repo checkout -q -- .' EXIT
cd /verif
for id in "$@"; do
  tier=${TIER:-quick}
  out=$(./check $id --tier $tier --no-evidence 2>&1); rc=$?
  echo "== $id rc=$rc"; echo "$out" | grep -E "VIOLATION|clause=|HARNESS|KNOWN" | head -6; echo "$out" | tail -1
done
