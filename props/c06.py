"""C06 - partially reliable channels drop only whole messages and never disturb others (E-sched)."""
from props import sctp_common as C
from vt.sched_check import run_sched, replay_sched

PID = "C06"
P = C.pay
DRIVERS = {}
# P1 reliable ordered R + maxRetransmits=0 ordered P, alternating 1- and 3-fragment messages
DRIVERS["P1"] = dict(
    setup="settled",
    channels=[C.chan("R", negotiated=0), C.chan("P", negotiated=1, maxRetransmits=0)],
    script=[[("send", "A", "R", P("R", 0, 100)), ("send", "A", "P", P("P", 0, 100)),
             ("send", "A", "R", P("R", 1, 2500)), ("send", "A", "P", P("P", 1, 100)),
             ("send", "A", "R", P("R", 2, 100))]],
)
# P2 as P1 with P unordered and a multi-fragment P message
DRIVERS["P2"] = dict(
    setup="settled",
    channels=[C.chan("R", negotiated=0), C.chan("P", negotiated=1, maxRetransmits=0, ordered=False)],
    script=[[("send", "A", "P", P("P", 0, 2500)), ("send", "A", "R", P("R", 0, 100)),
             ("send", "A", "P", P("P", 1, 100)), ("send", "A", "R", P("R", 1, 1300)),
             ("send", "A", "P", P("P", 2, 100))]],
)
# P3 P message larger than cwnd (only part in flight when abandoned), then small messages on P and R
DRIVERS["P3"] = dict(
    setup="settled",
    channels=[C.chan("R", negotiated=0), C.chan("P", negotiated=1, maxRetransmits=0)],
    script=[[("send", "A", "P", P("P", 0, 7000)), ("send", "A", "P", P("P", 1, 100)),
             ("send", "A", "R", P("R", 0, 100))]],
)
# P4 lifetime-limited channel: the clock decides expiry
DRIVERS["P4"] = dict(
    setup="settled",
    channels=[C.chan("R", negotiated=0), C.chan("T", negotiated=1, maxPacketLifeTime=50)],
    script=[[("send", "A", "T", P("T", 0, 100)), ("send", "A", "R", P("R", 0, 100)),
             ("send", "A", "T", P("T", 1, 2500)), ("send", "A", "R", P("R", 1, 100))],
            [("send", "A", "T", P("T", 2, 100))]],
)
# P5 two partially reliable channels (one retransmit allowed / unordered lifetime), both directions
DRIVERS["P5"] = dict(
    setup="settled",
    channels=[C.chan("P1", negotiated=1, maxRetransmits=1), C.chan("T", negotiated=2, maxPacketLifeTime=50, ordered=False)],
    script=[[("send", "A", "P1", P("P1", 0, 100)), ("send", "B", "T", P("Tb", 0, 1300)),
             ("send", "A", "T", P("T", 0, 100)), ("send", "A", "P1", P("P1", 1, 1300)),
             ("send", "B", "P1", P("P1b", 0, 100))]],
)
# P6 DCEP-opened partially reliable channel next to a reliable one
DRIVERS["P6"] = dict(
    setup="established",
    channels=[C.chan("R", creator="A"), C.chan("P", creator="A", maxRetransmits=0)],
    script=[[("send", "A", "P", P("P", 0, 100)), ("send", "A", "R", P("R", 0, 100)),
             ("send", "A", "P", P("P", 1, 1300)), ("send", "A", "R", P("R", 1, 100))]],
)
# P7 an older reliable chunk is outstanding in front of a partially reliable message larger than cwnd
DRIVERS["P7"] = dict(
    setup="settled",
    channels=[C.chan("R", negotiated=0), C.chan("P", negotiated=1, maxRetransmits=0)],
    script=[[("send", "A", "R", P("R", 0, 100)), ("send", "A", "P", P("P", 0, 7000)),
             ("send", "A", "R", P("R", 1, 100))]],
)
# P8 unordered lifetime-limited channel with a message larger than cwnd, both directions busy
DRIVERS["P8"] = dict(
    setup="settled",
    channels=[C.chan("R", negotiated=0), C.chan("T", negotiated=1, maxPacketLifeTime=50, ordered=False)],
    script=[[("send", "A", "T", P("T", 0, 5000)), ("send", "B", "R", P("Rb", 0, 100)),
             ("send", "A", "R", P("R", 0, 1300)), ("send", "A", "T", P("T", 1, 100))]],
)
# P9 ordered partially reliable channel whose stream sequence number wraps (65534, 65535, 0, 1) while messages are abandoned
DRIVERS["P9"] = dict(
    setup="settled",
    channels=[C.chan("R", negotiated=0), C.chan("P", negotiated=1, maxRetransmits=0)],
    sseq={"P": 65534, "R": 65535},
    script=[[("send", "A", "P", P("P", 0, 100)), ("send", "A", "P", P("P", 1, 100)),
             ("send", "A", "P", P("P", 2, 100)), ("send", "A", "P", P("P", 3, 100)),
             ("send", "A", "R", P("R", 0, 100))]],
)


def terminal_extra(world):
    # per-channel liveness: a fresh message on EVERY channel must be delivered after the network healed
    return C.probe(world, n=2, size=300, tag="fresh")


def scenario(name):
    oracle = C.SctpOracle(safety=True, liveness=True, do_probe=False, extra_terminal=None)
    base_terminal = oracle.terminal

    def terminal(world):
        out = base_terminal(world)
        if not out:
            out = terminal_extra(world)
            if not out:
                out = C.check_tasks(world) + C.check_delivery(world) + C.drained_violations(world)
        return out
    oracle.terminal = terminal
    return C.make_factory(DRIVERS[name]), oracle, C.default_signature


QUICK = [("P1", 2), ("P2", 2), ("P3", 2), ("P4", 2), ("P5", 2), ("P6", 2), ("P7", 2), ("P8", 2), ("P9", 2)]
THOROUGH = [("P1", 3), ("P2", 3), ("P3", 3), ("P4", 3), ("P5", 3), ("P6", 3), ("P7", 3), ("P8", 3), ("P9", 3)]


def run(tier, seed):
    sb = QUICK if tier == "quick" else THOROUGH
    return run_sched(
        "props.c06", PID, sb, seed,
        rule="all executions of each driver (reliable + partially reliable channels used concurrently) with at most "
             "k deviations; at every point: on partially reliable channels delivered is an exact duplicate-free "
             "sub-multiset of sent (in sending order when ordered), on reliable channels the C01 clause; at the "
             "terminal point: reliable traffic complete, queues drained, and a fresh message on every channel is "
             "delivered under the default policy",
        assumptions=["transport send never suspends", "deviation bound k", "DTLS stand-in"])


def replay(rep):
    return replay_sched(rep)
