"""Drivers and oracles shared by the SCTP/data-channel properties (C01, C02, C06, C13, C17)."""
from vt.sctpworld import SctpWorld


def pay(tag, i, n, text=False):
    """A payload of n bytes that names its channel and index (so leaks/dups are visible)."""
    head = ("%s%d|" % (tag, i)).encode()
    body = (head + bytes((j * 7 + i) % 251 for j in range(max(0, n - len(head)))))[:n] if n else b""
    if n and n < len(head):
        body = head[:n]
    if text:
        return "".join(chr(0x41 + (b % 26)) for b in body)
    return body


def chan(label, creator="A", negotiated=None, ordered=True, maxRetransmits=None, maxPacketLifeTime=None,
         protocol="", scripted=False):
    return dict(label=label, creator=creator, negotiated=negotiated, ordered=ordered,
                maxRetransmits=maxRetransmits, maxPacketLifeTime=maxPacketLifeTime, protocol=protocol,
                scripted=scripted)


# ----------------------------------------------------------------------------- oracles
def msg_eq(a, b):
    return type(a) is type(b) and a == b


def check_delivery(world, only_reliable=True):
    """C01 / C06 safety clause, evaluated at a quiescent point."""
    out = []
    for label, view in world.channels.items():
        for src, dst in (("A", "B"), ("B", "A")):
            sent = view.sent[src]
            recv = view.recv[dst]
            if not recv:
                continue
            if view.ordered and view.reliable:
                if len(recv) > len(sent) or not all(msg_eq(r, s) for r, s in zip(recv, sent)):
                    out.append(("delivery/ordered-prefix",
                                "%s %s>%s: received %s is not a prefix of sent %s" % (
                                    label, src, dst, _keys(recv), _keys(sent))))
            else:
                # duplicate-free sub-multiset, exact copies
                pool = list(sent)
                idx = []
                bad = False
                for r in recv:
                    for j, s in enumerate(pool):
                        if s is not None and msg_eq(r, s):
                            pool[j] = None
                            idx.append(j)
                            break
                    else:
                        bad = True
                        break
                if bad:
                    out.append(("delivery/exact-copy-no-dup",
                                "%s %s>%s: received %s not a duplicate-free sub-multiset of sent %s" % (
                                    label, src, dst, _keys(recv), _keys(sent))))
                elif view.ordered and idx != sorted(idx):
                    out.append(("delivery/order",
                                "%s %s>%s: delivered out of sending order: %s" % (label, src, dst, idx)))
    return out


def _keys(msgs):
    return [(type(m).__name__[0], len(m), (m[:10] if isinstance(m, str) else m[:10].decode("latin1"))) for m in msgs]


def check_tasks(world):
    out = []
    for f in world.task_failures():
        out.append(("task-exception", f))
    for op, err in world.op_errors:
        out.append(("op-exception", "%s: %s" % (op, err)))
    world.op_errors = []
    return out


def drained_violations(world, label_filter=None):
    """C02 terminal clause: everything reliable delivered, queues empty, bufferedAmount 0."""
    out = []
    if world.stalled:
        out.append(("liveness/never-quiescent",
                    "timers still firing %ds after the last fault / %d points" % (world.horizon, world.point)))
        return out
    connected = all(world.sctp[s].state == "connected" for s in "AB")
    if not connected:
        # nobody stopped the association and the fault history is far below any retransmission limit: an endpoint that
        # is not connected at the healed terminal point has given up (or never came up) for good
        if not any(op[0] == "stop" for step in world.spec.get("script", []) for op in step):
            out.append(("liveness/association-lost", "association states at quiescence: A=%s B=%s" % (
                world.sctp["A"].state, world.sctp["B"].state)))
        return out
    for side in "AB":
        s = world.sctp[side]
        if not s._sent_queue and not s._outbound_queue and s._flight_size != 0:
            # nothing is outstanding, yet the implementation's own count of outstanding bytes is not zero: the
            # window is (partly) closed for ever - every further leak adds up until flight size >= cwnd
            out.append(("liveness/flight-size-leak",
                        "%s: nothing outstanding or queued but flight_size=%d (cwnd=%d)" % (side, s._flight_size, s._cwnd)))
        if s._sent_queue or s._outbound_queue or s._data_channel_queue:
            out.append(("liveness/queues",
                        "%s: sent_queue=%d outbound_queue=%d dc_queue=%d flight=%d cwnd=%d" % (
                            side, len(s._sent_queue), len(s._outbound_queue), len(s._data_channel_queue),
                            s._flight_size, s._cwnd)))
    for label, view in world.channels.items():
        for src, dst in (("A", "B"), ("B", "A")):
            ch = view.ends.get(src)
            if ch is None:
                continue
            # (messages which close() discarded were never handed to the transport: on a closed channel the amount may
            # stay, as in browsers - "does not reset to zero once the channel closes"; the per-point equality with the
            # bytes accepted and not yet handed over is C13's clause buffered/amount)
            if ch.bufferedAmount != 0 and ch.readyState != "closed":
                out.append(("liveness/bufferedAmount", "%s@%s bufferedAmount=%d" % (label, src, ch.bufferedAmount)))
            if view.reliable and len(view.recv[dst]) != len(view.sent[src]):
                peer = view.ends.get(dst)
                # a channel closed by the application need not deliver what was cut off
                if ch.readyState == "open" and peer is not None and peer.readyState == "open":
                    out.append(("liveness/undelivered",
                                "%s %s>%s: %d sent, %d delivered at quiescence" % (
                                    label, src, dst, len(view.sent[src]), len(view.recv[dst]))))
    return out


def probe(world, n=8, size=1200, labels=None, tag="probe"):
    """After the terminal point: fresh traffic under the default policy must flow and drain."""
    out = []
    if not all(world.sctp[s].state == "connected" for s in "AB"):
        return out
    world.faults_enabled = False
    world.stalled = False
    world.last_fault_time = world.loop.time()
    used = []
    for label, view in world.channels.items():
        if labels is not None and label not in labels:
            continue
        a, b = view.ends.get("A"), view.ends.get("B")
        if a is None or b is None or a.readyState != "open" or b.readyState != "open":
            continue
        used.append(label)
        step = []
        for i in range(n):
            step.append(("send", "A", label, pay(tag + label + "a", i, size)))
            step.append(("send", "B", label, pay(tag + label + "b", i, size)))
        world.script.append(step)
    before = {l: (len(world.channels[l].recv["A"]), len(world.channels[l].recv["B"])) for l in used}
    world.max_points = world.point + 1500
    world.run_default()
    if world.stalled:
        out.append(("probe/never-quiescent", "probe traffic keeps timers firing"))
        return out
    for l in used:
        view = world.channels[l]
        ga = len(view.recv["A"]) - before[l][0]
        gb = len(view.recv["B"]) - before[l][1]
        if ga != n or gb != n:
            out.append(("probe/undelivered",
                        "%s: fresh messages after heal delivered A<-%d/%d B<-%d/%d" % (l, ga, n, gb, n)))
    return out


class SctpOracle:
    """Generic oracle: safety at every point, drained+probe at the terminal point."""

    def __init__(self, safety=True, liveness=True, do_probe=True, probe_n=8, extra_point=None,
                 extra_terminal=None):
        self.safety = safety
        self.liveness = liveness
        self.do_probe = do_probe
        self.probe_n = probe_n
        self.extra_point = extra_point
        self.extra_terminal = extra_terminal

    def point(self, world):
        out = check_tasks(world)
        if self.safety:
            out += check_delivery(world)
        if self.extra_point:
            out += self.extra_point(world)
        return out

    def terminal(self, world):
        out = []
        if self.liveness:
            out += drained_violations(world)
            if not out and self.do_probe:
                out += probe(world, n=self.probe_n)
                if not out:
                    out += check_tasks(world) + check_delivery(world) + drained_violations(world)
        if self.extra_terminal:
            out += self.extra_terminal(world)
        return out


def default_signature(clause, detail, r):
    return clause


# ----------------------------------------------------------------------------- drivers
def drivers():
    D = {}
    # D1 one ordered DCEP channel, association set-up inside the explored run
    D["D1"] = dict(
        setup="explored",
        channels=[chan("d1", creator="A")],
        script=[[("send", "A", "d1", "a"), ("send", "A", "d1", pay("d1", 1, 2500)),
                 ("send", "A", "d1", ""), ("send", "A", "d1", b""),
                 ("send", "A", "d1", "é日本" + pay("d1", 4, 20, text=True))]],
    )
    # D2 ordered + unordered negotiated channels used alternately, 1- and 3-fragment messages
    D["D2"] = dict(
        setup="settled",
        channels=[chan("o", negotiated=2), chan("u", negotiated=4, ordered=False)],
        script=[[("send", "A", "o", pay("o", 0, 50)), ("send", "A", "u", pay("u", 0, 2500)),
                 ("send", "A", "o", pay("o", 1, 2500)), ("send", "A", "u", pay("u", 1, 50)),
                 ("send", "A", "o", pay("o", 2, 50))]],
    )
    # D3 both roles send concurrently on a DCEP channel created by the server side
    D["D3"] = dict(
        setup="established",
        channels=[chan("d3", creator="B")],
        script=[[("send", "B", "d3", pay("d3b", 0, 1500)), ("send", "B", "d3", pay("d3b", 1, 10, text=True))],
                [("send", "A", "d3", pay("d3a", 0, 10)), ("send", "B", "d3", pay("d3b", 2, 10)),
                 ("send", "A", "d3", pay("d3a", 1, 1500, text=True))]],
    )
    # D4 two negotiated channels, short
    D["D4"] = dict(
        setup="settled",
        channels=[chan("x", negotiated=0), chan("y", negotiated=1)],
        script=[[("send", "A", "x", pay("x", 0, 10)), ("send", "B", "y", pay("y", 0, 10)),
                 ("send", "A", "y", pay("y", 1, 1300)), ("send", "A", "x", pay("x", 1, 10, text=True))]],
    )
    # D5 mixed 100/1100-byte burst larger than the congestion window
    D["D5"] = dict(
        setup="settled",
        channels=[chan("m", negotiated=0)],
        script=[[("send", "A", "m", pay("m", i, n)) for i, n in enumerate([100, 1100, 100, 1100, 1100, 100, 1100])]],
    )
    # D6 bidirectional bursts larger than the congestion window
    D["D6"] = dict(
        setup="settled",
        channels=[chan("b", negotiated=0)],
        script=[[("send", s, "b", pay("b" + s, i, 1200)) for i in range(4) for s in "AB"]],
    )
    return D


def make_factory(spec):
    def factory():
        return SctpWorld(spec)
    return factory
