"""C05 - no received datagram can crash, hang or wedge the receive path.

E-enum over inputs x protocol states.  'All byte strings up to MTU' cannot be enumerated; what IS enumerated
completely are finite, structure-aware families (short strings, every truncation / single-bit flip / boundary-byte
replacement of seed packets with checksum and tag re-sealed, boundary products for every length / count / offset
field), each delivered to the real entry points in a set of protocol states reached by scripted prefixes.
"""
import asyncio
import itertools
import os
import signal
import struct

import aiortc.rtcsctptransport as S
from aiortc import rtp as R
from aiortc.codecs.h264 import H264PayloadDescriptor
from aiortc.codecs.vpx import VpxPayloadDescriptor
from google_crc32c import value as crc32c
from props import sctp_common as C
from vt.enumcheck import Tally, pmap, result
from vt.sctpworld import SctpWorld

PID = "C05"
BYTES5 = [0x00, 0x01, 0x7F, 0x80, 0xFF]
TESTS = "/repo/tests"


class Hang(BaseException):
    pass


def _on_alarm(signum, frame):
    raise Hang()


HANGS = {"n": 0}
MAX_HANGS_PER_TASK = 4


class TooManyHangs(Exception):
    pass


def limit_memory():
    """A datagram that makes the receive path allocate without bound must fail loudly (MemoryError), not take the box down."""
    import resource
    soft, hard = resource.getrlimit(resource.RLIMIT_AS)
    want = 10 << 30
    if soft == resource.RLIM_INFINITY or soft > want:
        resource.setrlimit(resource.RLIMIT_AS, (want, hard))


def confirmed_hang(fn, *a):
    """A watchdog hit is only reported when the same input, on a fresh object, is still running after 10 s of CPU: a slow
    moment (a garbage collection, a loaded machine) is not a hang.  Returns True when the hang is confirmed."""
    HANGS["n"] = max(0, HANGS["n"] - 1)
    kind, val = guarded(fn, *a, cpu=10.0)
    if kind == "hang":
        return True
    t = val if kind == "ok" else None
    if t is not None and hasattr(t, "done") and t.done() and not t.cancelled() and isinstance(t.exception(), Hang):
        HANGS["n"] += 1
        return True
    HANGS["slow"] = HANGS.get("slow", 0) + 1
    return False


def guarded(fn, *a, cpu=1.0):
    """Run fn under a CPU-time watchdog. Returns (kind, value): ok / raised / hang."""
    if HANGS["n"] >= MAX_HANGS_PER_TASK:
        raise TooManyHangs()
    signal.signal(signal.SIGVTALRM, _on_alarm)
    signal.setitimer(signal.ITIMER_VIRTUAL, cpu)
    try:
        return "ok", fn(*a)
    except Hang:
        HANGS["n"] += 1
        return "hang", None
    except Exception as e:          # noqa
        e.__traceback__ = None      # no reference cycle through this frame: keeps the garbage collector out of the timing
        return "raised", e
    finally:
        signal.setitimer(signal.ITIMER_VIRTUAL, 0)


# ----------------------------------------------------------------------------- generic mutations
def mutations(seed, bitflips=True, reps=True):
    """every truncation, every single-bit flip, every single-byte replacement by a boundary value"""
    for n in range(len(seed)):
        yield "trunc%d" % n, seed[:n]
    if bitflips:
        v = int.from_bytes(seed, "big")
        nb = len(seed) * 8
        for b in range(nb):
            yield "flip%d" % b, (v ^ (1 << (nb - 1 - b))).to_bytes(len(seed), "big")
    if reps:
        for i in range(len(seed)):
            for x in BYTES5:
                if seed[i] != x:
                    yield "rep%d=%02x" % (i, x), seed[:i] + bytes([x]) + seed[i + 1:]


def short_strings():
    yield b""
    for a in range(256):
        yield bytes([a])
    for a in range(256):
        for b in range(256):
            yield bytes([a, b])
    for n in range(3, 9):
        for t in itertools.product(BYTES5, repeat=n):
            yield bytes(t)


def fixture(name):
    with open(os.path.join(TESTS, name), "rb") as f:
        return f.read()


# ----------------------------------------------------------------------------- family P: parsers
def parser_targets():
    m = R.HeaderExtensionsMap()
    from aiortc.rtcrtpparameters import RTCRtpHeaderExtensionParameters, RTCRtpParameters
    p = RTCRtpParameters()
    for i, uri in enumerate(["urn:ietf:params:rtp-hdrext:sdes:mid", "urn:ietf:params:rtp-hdrext:sdes:rtp-stream-id",
                             "urn:ietf:params:rtp-hdrext:sdes:repaired-rtp-stream-id",
                             "http://www.webrtc.org/experiments/rtp-hdrext/abs-send-time", "urn:ietf:params:rtp-hdrext:toffset",
                             "urn:ietf:params:rtp-hdrext:ssrc-audio-level",
                             "http://www.ietf.org/id/draft-holmer-rmcat-transport-wide-cc-extensions-01"]):
        p.headerExtensions.append(RTCRtpHeaderExtensionParameters(id=i + 1, uri=uri))
    m.configure(p)
    full = R.RtpPacket(payload_type=96, sequence_number=1, timestamp=2, ssrc=3, payload=b"pay")
    full.extensions = R.HeaderExtensions(abs_send_time=1, audio_level=(True, 5), mid="0", repaired_rtp_stream_id="r", rtp_stream_id="s",
                                         transmission_offset=-1, transport_sequence_number=9)
    full.csrc = [7]
    full.padding_size = 3
    rtcp_seeds = [fixture(n) for n in os.listdir(TESTS) if n.startswith("rtcp_") and n.endswith(".bin")]
    rtcp_seeds.append(bytes(R.RtcpPsfbPacket(fmt=15, ssrc=1, media_ssrc=0, fci=R.pack_remb_fci(100000, [1, 2, 3]))))
    rtcp_seeds.append(bytes(R.RtcpRtpfbPacket(fmt=1, ssrc=1, media_ssrc=2, lost=[65535, 0, 3, 40])))
    rtp_seeds = [fixture(n) for n in os.listdir(TESTS) if n.startswith("rtp") and n.endswith(".bin")] + [full.serialize(m)]
    sctp_seeds = [fixture(n) for n in os.listdir(TESTS) if n.startswith("sctp_") and n.endswith(".bin")]
    param_seeds = [bytes(S.StreamResetOutgoingParam(1, 2, 3, [4, 5])), bytes(S.StreamAddOutgoingParam(1, 2)), bytes(S.StreamResetResponseParam(1, 2))]
    h264_seeds = [fixture(n)[:80] for n in ("h264_0000.bin", "h264_0001.bin", "h264_0002.bin", "h264_0003.bin")]
    h264_seeds += [bytes([24]) + struct.pack("!H", 3) + b"\x65ab" + struct.pack("!H", 2) + b"\x41c", bytes([0x7C, 0x85]) + b"abc"]
    vp8_seeds = [bytes(VpxPayloadDescriptor(partition_start=1, partition_id=0, picture_id=300, tl0picidx=1, tid=(1, 0), keyidx=2)) + b"xy",
                 bytes(VpxPayloadDescriptor(partition_start=0, partition_id=1, picture_id=5)) + b"z"]
    return [
        ("rtp.RtpPacket.parse", lambda d: R.RtpPacket.parse(d, m), rtp_seeds, True),
        ("rtp.RtcpPacket.parse", R.RtcpPacket.parse, rtcp_seeds, True),
        ("sctp.parse_packet", S.parse_packet, sctp_seeds, False),
        ("sctp.parse_packet(resealed)", lambda d: S.parse_packet(reseal(d)), sctp_seeds, False),
        ("rtp.unpack_remb_fci", R.unpack_remb_fci, [R.pack_remb_fci(100000, [1, 2, 3]), R.pack_remb_fci(0, [])], True),
        ("sctp.StreamResetOutgoingParam.parse", S.StreamResetOutgoingParam.parse, param_seeds[:1], True),
        ("sctp.StreamAddOutgoingParam.parse", S.StreamAddOutgoingParam.parse, param_seeds[1:2], True),
        ("sctp.StreamResetResponseParam.parse", S.StreamResetResponseParam.parse, param_seeds[2:], True),
        ("h264.H264PayloadDescriptor.parse", H264PayloadDescriptor.parse, h264_seeds, True),
        ("vpx.VpxPayloadDescriptor.parse", VpxPayloadDescriptor.parse, vp8_seeds, True),
    ]


def reseal(data):
    """Recompute the SCTP checksum so that a mutated packet reaches chunk processing."""
    if len(data) < 12:
        return data
    body = data[0:8] + b"\x00\x00\x00\x00" + data[12:]
    return data[0:8] + struct.pack("<L", crc32c(body)) + data[12:]


class TaskTimeout(KeyboardInterrupt):
    """Raised by the per-task CPU budget (KeyboardInterrupt subclass: asyncio tasks re-raise it instead of swallowing it)."""


TASK_CPU = 300.0     # seconds of CPU per task; the heaviest task of the thorough tier needs well under a minute


def _on_task_alarm(signum, frame):
    raise TaskTimeout()


def budgeted(T, what, fn, *a):
    """The harness's own traffic (building a protocol state, sending valid frames afterwards) runs outside the per-datagram
    watchdog; if THAT never ends - valid packets hanging the receive path - the check must say so instead of hanging too."""
    signal.signal(signal.SIGPROF, _on_task_alarm)
    signal.setitimer(signal.ITIMER_PROF, TASK_CPU, 5.0)
    try:
        return fn(*a)
    except TaskTimeout:
        T.violation("task/hangs|%s" % what.split("(")[0], "task/hangs",
                    "%s used more than %d s of CPU: the harness's own valid traffic never completes" % (what, TASK_CPU),
                    dict(kind="task", what=what))
    finally:
        signal.setitimer(signal.ITIMER_PROF, 0)


def _capped(fn, task):
    """Runs a task; a task that has hit the hang budget stops early and says so (the violations are already recorded)."""
    limit_memory()
    import gc
    gc.collect()
    gc.freeze()                     # the objects of the imported libraries never need to be traversed again
    HANGS["n"] = 0
    T = Tally()
    try:
        budgeted(T, "%s%r" % (fn.__name__, task), fn, task, T)
    except TooManyHangs:
        T.count("tasks-cut-short-after-%d-hangs" % MAX_HANGS_PER_TASK)
    return T


def parsers_task(task):
    return _capped(_parsers_task, task)


def _parsers_task(task, T):
    idx, part, nparts = task
    name, fn, seeds, shorts = parser_targets()[idx]
    k = -1

    def one(desc, data):
        nonlocal k
        k += 1
        if k % nparts != part:
            return
        T.case(None)
        T.count("parser:" + name)
        kind, val = guarded(fn, data)
        if kind == "hang" and not confirmed_hang(fn, data):
            T.count("slow-but-not-hung")
        elif kind == "hang":
            T.violation("parser-hangs/%s" % name, "parser/hangs", "%s did not return within 10 s of CPU for %d bytes (%s)" % (name, len(data), desc),
                        dict(kind="parser", target=name, data=data.hex()))
        elif kind == "raised" and not isinstance(val, ValueError):
            T.violation("parser-raises/%s/%s" % (name, type(val).__name__), "parser/unexpected-exception",
                        "%s raised %s: %s for %s (%d bytes)" % (name, type(val).__name__, val, desc, len(data)),
                        dict(kind="parser", target=name, data=data.hex()))
    for si, seed in enumerate(seeds):
        for desc, data in mutations(seed):
            one("seed%d:%s" % (si, desc), data)
    if shorts:
        for data in short_strings():
            one("short", data)
    if part == 0:
        T.sample(dict(kind="parser-family", target=name, seeds=len(seeds), example=seeds[0][:24].hex()))
    return T


# ----------------------------------------------------------------------------- family S: SCTP transport in protocol states
STATES = ["server-before-init", "client-cookie-wait", "client-cookie-echoed", "established-idle", "established-outstanding",
          "established-reassembling", "established-gap", "established-reset-pending"]


def build_state(name):
    """Returns (world, victim side). The victim's _handle_data is the entry point."""
    spec = dict(setup="explored", channels=[C.chan("x", negotiated=0, scripted=True), C.chan("y", negotiated=1, scripted=True)], script=[], horizon=60.0)
    name, _, origin = name.partition("@")
    if origin == "wrap":
        # both initial TSNs two below 2^32: every state's live TSNs (cumulative, outstanding, reassembly) straddle the wrap
        spec["tsn"] = {"A": 2 ** 32 - 2, "B": 2 ** 32 - 2}
    w = SctpWorld(spec)
    w.faults_enabled = False
    if name == "server-before-init":
        w.wire.clear()
        return w, "B"
    if name == "client-cookie-wait":
        w.wire.clear()
        return w, "A"
    if name == "client-cookie-echoed":
        w.apply(w.menu()[0])      # INIT -> B
        w.apply(w.menu()[0])      # INIT ACK -> A (A sends COOKIE ECHO)
        w.wire.clear()
        return w, "A"
    w.run_default_until(w.both_established)
    while w.wire:
        w.apply(w.menu()[0])
    w._create("x")
    w._create("y")
    w.loop.drain()
    if name == "established-idle":
        return w, "B"
    if name == "established-outstanding":
        w._do_op(("send", "B", "x", C.pay("x", 0, 2500)))
        w.loop.drain()
        w.wire.clear()            # B's data is outstanding, the SACKs never came
        return w, "B"
    if name == "established-reassembling":
        w._do_op(("send", "A", "x", C.pay("x", 0, 2500)))
        w.loop.drain()
        first = [dg for dg in w.wire if dg.src == "A"][0]
        w.wire.remove(first)
        w._deliver(first)         # B holds the first fragment only
        w.wire.clear()
        return w, "B"
    if name == "established-gap":
        w._do_op(("send", "A", "x", C.pay("x", 0, 2500)))
        w.loop.drain()
        second = [dg for dg in w.wire if dg.src == "A"][1]
        w.wire.remove(second)
        w._deliver(second)        # B holds the middle fragment only: TSN cum+2 is recorded as misordered
        w.wire.clear()
        return w, "B"
    if name == "established-reset-pending":
        w._do_op(("close", "B", "y"))
        w.loop.drain()
        w.wire.clear()            # B's reset request is unanswered
        return w, "B"
    raise KeyError(name)


def live_packet(w, victim, chunk):
    """A packet as the peer would send it to the victim: right ports and verification tag."""
    # the tag the victim expects is its own local verification tag (known to the peer from INIT / INIT ACK; in the earliest
    # states the harness simply uses it - a packet that guesses the tag is still a datagram from the network)
    tag = w.sctp[victim]._local_verification_tag if not isinstance(chunk, S.InitChunk) else 0
    return S.serialize_packet(5000, 5000, tag, chunk)


def sctp_seed_packets(w, victim):
    peer = "A" if victim == "B" else "B"
    v = w.sctp[victim]
    cum = v._last_received_tsn if v._last_received_tsn is not None else 0
    out = []
    d = S.DataChunk(flags=3)
    d.tsn, d.stream_id, d.stream_seq, d.protocol, d.user_data = (cum + 1) % 2 ** 32, 0, 0, 51, b"hello"
    out.append(("DATA", d))
    d2 = S.DataChunk(flags=3)
    d2.tsn, d2.stream_id, d2.stream_seq, d2.protocol = (cum + 1) % 2 ** 32, 7, 0, 50
    d2.user_data = struct.pack("!BBHLHH", 3, 0, 0, 0, 2, 1) + b"abc"
    out.append(("DATA-DCEP-OPEN", d2))
    sack = S.SackChunk()
    sack.cumulative_tsn, sack.advertised_rwnd, sack.gaps, sack.duplicates = (v._local_tsn - 1) % 2 ** 32, 131072, [(2, 3)], [5]
    out.append(("SACK", sack))
    f = S.ForwardTsnChunk()
    f.cumulative_tsn, f.streams = (cum + 2) % 2 ** 32, [(0, 1)]
    out.append(("FORWARD-TSN", f))
    init = S.InitChunk()
    init.initiate_tag, init.advertised_rwnd, init.outbound_streams, init.inbound_streams, init.initial_tsn = 0x1234, 131072, 65535, 65535, 77
    init.params = [(0xC000, b""), (0x8008, b"\xc0\x82")]
    out.append(("INIT", init))
    ia = S.InitAckChunk()
    ia.initiate_tag, ia.advertised_rwnd, ia.outbound_streams, ia.inbound_streams, ia.initial_tsn = 0x4321, 131072, 65535, 65535, 88
    ia.params = [(7, b"c" * 28), (0xC000, b"")]
    out.append(("INIT-ACK", ia))
    ce = S.CookieEchoChunk()
    ce.body = b"k" * 28
    out.append(("COOKIE-ECHO", ce))
    out.append(("COOKIE-ACK", S.CookieAckChunk()))
    hb = S.HeartbeatChunk()
    hb.params = [(1, b"12345678")]
    out.append(("HEARTBEAT", hb))
    er = S.ErrorChunk()
    er.params = [(3, b"\x00\x00\x00\x01")]
    out.append(("ERROR", er))
    rc = S.ReconfigChunk()
    rc.params = [(13, bytes(S.StreamResetOutgoingParam((w.sctp[victim]._reconfig_response_seq + 1) % 2 ** 32, 0, cum, [1])))]
    out.append(("RECONFIG-RESET", rc))
    rr = S.ReconfigChunk()
    rr.params = [(16, bytes(S.StreamResetResponseParam(v._reconfig_request.request_sequence if v._reconfig_request else 5, 1)))]
    out.append(("RECONFIG-RESPONSE", rr))
    ra = S.ReconfigChunk()
    ra.params = [(17, bytes(S.StreamAddOutgoingParam(9, 2)))]
    out.append(("RECONFIG-ADD", ra))
    sh = S.ShutdownChunk()
    sh.cumulative_tsn = cum
    out.append(("SHUTDOWN", sh))
    out.append(("SHUTDOWN-ACK", S.ShutdownAckChunk()))
    out.append(("SHUTDOWN-COMPLETE", S.ShutdownCompleteChunk()))
    out.append(("ABORT", S.AbortChunk()))
    return [(n, live_packet(w, victim, c)) for n, c in out]


def boundary_packets(w, victim):
    """F3: per chunk type, products of boundary values of length / count / offset fields (built as raw bytes, re-sealed)."""
    v = w.sctp[victim]
    tag = v._local_verification_tag
    cum = v._last_received_tsn if v._last_received_tsn is not None else 0
    hdr = struct.pack("!HHL", 5000, 5000, tag) + b"\x00\x00\x00\x00"

    def pkt(ctype, flags, body, length=None):
        L = len(body) + 4 if length is None else length
        raw = struct.pack("!BBH", ctype, flags, L) + body
        raw += b"\x00" * ((4 - len(raw) % 4) % 4)
        return reseal(hdr + raw)
    out = []
    # chunk length field: every value around the real one, for each chunk type with a fixed part
    for ctype, body in ((0, struct.pack("!LHHL", (cum + 1) % 2 ** 32, 0, 0, 51) + b"abcd"), (3, struct.pack("!LLHH", 1, 2, 0, 0)),
                        (1, struct.pack("!LLHHL", 1, 2, 3, 4, 5)), (192, struct.pack("!LHH", (cum + 1) % 2 ** 32, 0, 0)), (7, struct.pack("!L", cum)),
                        (130, struct.pack("!HH", 13, 16) + struct.pack("!LLL", 1, 2, 3)), (4, struct.pack("!HH", 1, 8) + b"abcd")):
        for L in list(range(0, len(body) + 4 + 9)) + [0xFFFF]:
            out.append(("len/%d/%d" % (ctype, L), pkt(ctype, 0, body, length=L)))
        for cut in range(len(body) + 1):
            out.append(("short-body/%d/%d" % (ctype, cut), pkt(ctype, 0, body[:cut])))
    # parameter lengths
    for ctype in (1, 2, 4, 6, 9, 130):
        fixed = struct.pack("!LLHHL", 1, 2, 3, 4, 5) if ctype in (1, 2) else b""
        for plen in (0, 1, 3, 4, 5, 8, 12, 0xFFFF):
            for ptype in (1, 7, 13, 16, 17, 0x8008, 0xC000):
                out.append(("param/%d/%d/%d" % (ctype, ptype, plen), pkt(ctype, 0, fixed + struct.pack("!HH", ptype, plen) + b"\x00" * 8)))
    # SACK gap blocks and counts
    gapdom = [(0, 0), (1, 1), (2, 1), (1, 65535), (65535, 65535)]
    for nb in (0, 1, 2, 300):
        for g1 in gapdom:
            for g2 in gapdom:
                for c in (0, 1, 2 ** 31, 2 ** 32 - 1):
                    gaps = ([g1, g2] * 150)[:nb] if nb else []
                    body = struct.pack("!LLHH", (v._local_tsn - 1 + c) % 2 ** 32, 1000, nb, 0) + b"".join(struct.pack("!HH", *g) for g in gaps)
                    out.append(("sack/%d/%r/%r/%d" % (nb, g1, g2, c), pkt(3, 0, body)))
    for claimed in (1, 5, 65535):
        out.append(("sack-count/%d" % claimed, pkt(3, 0, struct.pack("!LLHH", 1, 2, claimed, claimed))))
    # a SACK acknowledging TSNs that were never sent (beyond the next TSN to be assigned) is nonsense
    for ahead in (0, 1, 1000, 2 ** 31 - 2):
        out.append(("sack-beyond/%d" % ahead, pkt(3, 0, struct.pack("!LLHH", (v._local_tsn + ahead) % 2 ** 32, 131072, 0, 0))))
    # DATA: stream ids / sequence numbers / TSNs relative to the association / PPIDs / flags
    for tsn in (cum - 1, cum, cum + 1, cum + 2, cum + 2 ** 31 - 1, cum + 2 ** 31, cum + 2 ** 32 - 2):
        for sid in (0, 1, 65534, 65535):
            for sseq in (0, 1, 65535):
                for ppid in (0, 50, 51, 53, 56, 57, 2 ** 32 - 1):
                    for flags in (0, 1, 2, 3, 7):
                        body = struct.pack("!LHHL", tsn % 2 ** 32, sid, sseq, ppid) + b"\xff\xfe\x00\x01"
                        out.append(("data/%d/%d/%d/%d/%d" % (tsn - cum, sid, sseq, ppid, flags), pkt(0, flags, body)))
    # DCEP OPEN with label / protocol lengths greater or smaller than the data, invalid UTF-8
    for ll, pl, tail in itertools.product((0, 1, 3, 300, 65535), (0, 1, 300, 65535), (b"", b"ab", b"\xff\xfe\xfd", b"abc" * 30)):
        for mtype in (2, 3, 4, 255):
            body = struct.pack("!LHHL", (cum + 1) % 2 ** 32, 9, 0, 50) + struct.pack("!BBHLHH", mtype, 0, 0, 0, ll, pl) + tail
            out.append(("dcep/%d/%d/%d/%d" % (mtype, ll, pl, len(tail)), pkt(0, 3, body)))
    for short in range(0, 12):
        body = struct.pack("!LHHL", (cum + 1) % 2 ** 32, 9, 0, 50) + (b"\x03" + b"\x00" * 11)[:short]
        out.append(("dcep-short/%d" % short, pkt(0, 3, body)))
    # FORWARD TSN
    for c in (cum - 1, cum, cum + 1, cum + 2 ** 31 - 1, cum + 2 ** 31):
        for streams in ([], [(0, 0)], [(65535, 65535)], [(0, 0)] * 300):
            body = struct.pack("!L", c % 2 ** 32) + b"".join(struct.pack("!HH", *s) for s in streams)
            out.append(("fwd/%d/%d" % (c - cum, len(streams)), pkt(192, 0, body)))
            out.append(("fwd-odd/%d/%d" % (c - cum, len(streams)), pkt(192, 0, body + b"\x00\x01")))
    # bundled chunks: INIT bundled with DATA, two DATA, unknown chunk types
    d = struct.pack("!BBH", 0, 3, 20) + struct.pack("!LHHL", (cum + 1) % 2 ** 32, 0, 0, 51) + b"abcd"
    i = struct.pack("!BBH", 1, 0, 20) + struct.pack("!LLHHL", 1, 2, 3, 4, 5)
    for name, raw in (("init+data", i + d), ("data+init", d + i), ("data+data", d + d), ("unknown", struct.pack("!BBH", 99, 0, 4)),
                      ("unknown+data", struct.pack("!BBH", 0xC1, 0, 8) + b"abcd" + d)):
        out.append(("bundle/" + name, reseal(hdr + raw)))
        out.append(("bundle0/" + name, reseal(struct.pack("!HHL", 5000, 5000, 0) + b"\x00\x00\x00\x00" + raw)))
    return out


def containers(v):
    n = len(v._sack_misordered) + len(v._sack_duplicates) + len(v._inbound_streams) + len(v._outbound_queue) + len(v._sent_queue) + \
        len(v._data_channels) + len(v._data_channel_queue)
    for st in v._inbound_streams.values():
        n += len(st.reassembly)
    return n


def chunk_types(data):
    out = set()
    pos = 12
    while pos + 4 <= len(data):
        ctype, _, length = struct.unpack_from("!BBH", data, pos)
        out.add(ctype)
        if length < 4:
            break
        pos += length + ((4 - length % 4) % 4)
    return out


def seqspace(v):
    """what a datagram may legitimately consume: sequence-number space, stream state, channels, association state"""
    return (v._association_state, v._last_received_tsn, tuple(sorted(v._sack_misordered)), v._last_sacked_tsn, v._advanced_peer_ack_tsn,
            tuple(sorted((sid, st.sequence_number, len(st.reassembly)) for sid, st in v._inbound_streams.items())),
            v._reconfig_response_seq, v._reconfig_request is None, len(v._sent_queue), len(v._outbound_queue),
            tuple(sorted((cid, ch.readyState) for cid, ch in v._data_channels.items())))


def liveness(w):
    """a scripted valid exchange still succeeds"""
    if not w.both_established():
        return None
    for side, label in (("A", "x"), ("B", "x")):
        ch = w.channels[label].ends.get(side)
        if ch is None or ch.readyState != "open":
            return None
    before = {s: len(w.channels["x"].recv[s]) for s in "AB"}
    w._do_op(("send", "A", "x", b"ping-after"))
    w._do_op(("send", "B", "x", "pong-after"))
    w.loop.drain()
    w.max_points = w.point + 200
    w.horizon = 30.0
    w.last_fault_time = w.loop.time()
    w.run_default()
    if b"ping-after" not in w.channels["x"].recv["B"][before["B"]:] or "pong-after" not in w.channels["x"].recv["A"][before["A"]:]:
        return "after the datagram a message each way is no longer delivered (A got %d new, B got %d new)" % (
            len(w.channels["x"].recv["A"]) - before["A"], len(w.channels["x"].recv["B"]) - before["B"])
    return None


def sctp_task(task):
    return _capped(_sctp_task, task)


def _sctp_task(task, T):
    state, family, part, nparts = task
    w, victim = build_state(state)
    base = w.canon()
    cases = []
    if family == "short":
        cases = [("short", d) for d in short_strings()]
    elif family == "mutate":
        for name, pktb in sctp_seed_packets(w, victim):
            for desc, data in mutations(pktb):
                cases.append(("%s:%s" % (name, desc), reseal(data)))
                if desc.startswith("flip") and int(desc[4:]) % 7 == 0:
                    cases.append(("%s:%s:unsealed" % (name, desc), data))
            cases.append((name + ":as-is", pktb))
    elif family == "boundary":
        cases = boundary_packets(w, victim)
    w.close()
    w = None
    k = -1
    for desc, data in cases:
        k += 1
        if k % nparts != part:
            continue
        if w is None:
            w, victim = build_state(state)
            base = w.canon()
            size0 = containers(w.sctp[victim])
        T.case(None)
        T.count("sctp/%s/%s" % (state, family))
        v = w.sctp[victim]
        space0 = seqspace(v)
        rejected = False
        try:
            S.parse_packet(data)
        except Exception:
            rejected = True
        n0 = containers(v) if w is not None else 0

        def deliver():
            t = w.loop.create_task(v._handle_data(data))
            w.loop.drain()
            return t
        w.activate()
        kind, val = guarded(deliver)
        sig = None
        if kind == "hang" or (kind == "ok" and val.done() and isinstance(val.exception(), Hang)):
            # confirm on a fresh association in the same protocol state
            if kind == "ok":
                HANGS["n"] += 1
            try:
                w.close()
            except Exception:
                pass
            w, victim = build_state(state)
            base, v = w.canon(), w.sctp[victim]
            w.activate()
            if confirmed_hang(deliver):
                kind = "hang"
            else:
                T.count("slow-but-not-hung")
                kind, val = "ok", w.loop.create_task(asyncio.sleep(0))
                w.loop.drain()
        if kind == "hang":
            sig = ("sctp/hangs", "handling %d bytes did not finish within 10 s of CPU" % len(data))
        elif kind == "raised":
            sig = ("sctp/raises/" + type(val).__name__, "%s: %s escaped the loop" % (type(val).__name__, val))
        else:
            t = val
            if not t.done():
                pass
            elif t.exception() is not None:
                e = t.exception()
                sig = ("sctp/raises/" + type(e).__name__, "%s: %s out of _handle_data" % (type(e).__name__, e))
            dead = w.task_failures()
            if sig is None and dead:
                sig = ("sctp/task-raises", dead[0])
        if sig is None:
            grown = containers(v) - n0
            if grown > 64 + len(data):
                sig = ("sctp/memory", "one datagram of %d bytes added %d entries to the transport's containers" % (len(data), grown))
        changed = w.canon() != base
        if sig is None and rejected and changed:
            sig = ("sctp/rejected-packet-changed-state", "a packet that parse_packet rejects changed the association state")
        # an association may be ended by the chunks whose meaning that is (ABORT, the SHUTDOWN family) - by nothing else
        first_type = data[12] if len(data) > 12 else None
        if sig is None and v.state == "closed" and state.startswith("established") and first_type not in (6, 7, 8, 14):
            sig = ("sctp/closed-by-nonsense", "the association was closed by a packet whose first chunk has type %r" % first_type)
        # Valid traffic must still flow afterwards.  A packet with the right tag and checksum IS the peer as far as SCTP can
        # tell: DATA / SACK / FORWARD TSN / RE-CONFIG that consume sequence space or reset streams legitimately change what
        # the (harness) peer may send next, so the exchange is only demanded when no sequence space was consumed - and always
        # after chunk types that have no business changing an established association (INIT, INIT ACK, COOKIE ECHO / ACK,
        # HEARTBEAT, HEARTBEAT ACK, ERROR, unknown types).
        must_stay_live = not (chunk_types(data) & {0, 3, 130, 192, 6, 7, 8, 14}) or seqspace(v) == space0 or desc.startswith("sack-beyond")
        if sig is None and changed and must_stay_live and state.startswith("established") and v.state == "connected":
            w.wire.clear()
            kind2, msg = guarded(liveness, w, cpu=5.0)
            if kind2 == "hang":
                sig = ("sctp/wedged", "valid traffic afterwards never completes")
            elif kind2 == "raised":
                sig = ("sctp/wedged", "valid traffic afterwards raises %s: %s" % (type(msg).__name__, msg))
            elif msg:
                sig = ("sctp/wedged", msg)
        if sig:
            T.violation("%s|%s" % (sig[0], desc.split(":")[0].split("/")[0]), sig[0], "%s [state %s, datagram %s, %d bytes]" % (sig[1], state, desc, len(data)),
                        dict(kind="sctp", state=state, data=data.hex(), desc=desc))
        if changed or sig:
            try:
                w.close()
            except Exception:
                pass
            w = None
    if w is not None:
        if state.startswith("established"):
            msg = liveness(w)
            if msg:
                T.violation("sctp/wedged|batch", "sctp/wedged", "%s [state %s, after a batch of rejected datagrams]" % (msg, state),
                            dict(kind="sctp", state=state, data="", desc="batch"))
        w.close()
    if part == 0:
        T.sample(dict(kind="sctp-family", state=state, family=family, cases=len(cases)))
    return T


# ----------------------------------------------------------------------------- family M: RTP/RTCP through the transport with a live receiver/sender
def rtp_task(task):
    return _capped(_rtp_task, task)


def _rtp_task(task, T):
    from props import c11
    family, start, part, nparts = task
    spec = dict(c11.SCEN["any/VP8/rtx/wrap" if start == "wrap" else "any/H264/nortx/low"], frames=[2, 3, 1, 2], mode="any")

    def fresh(progress):
        w = c11.RtpWorld(spec)
        w.faults_enabled = False
        captured = []
        for _ in range(progress):
            m = w.menu()
            if not m:
                break
            if m[0][2][0] == "deliver":
                captured.append((w.wire[0].src, w.wire[0].data))
            w.apply(m[0])
        return w, captured
    # capture real packets of this pipeline as seeds
    w, captured = fresh(40)
    media = [d for s, d in captured if s == "S" and not R.is_rtcp(d)][:3]
    rtcp_s = [d for s, d in captured if s == "S" and R.is_rtcp(d)][:1]
    rtcp_r = [d for s, d in captured if s == "R" and R.is_rtcp(d)][:1]
    ssrc = w.sender._ssrc
    rtx_ssrc = w.sender._rtx_ssrc
    w.close()
    cases = []       # (desc, destination, data)
    if family == "short":
        for d in short_strings():
            if len(d) <= 2 or d[0] in (0x80, 0x7F, 0xFF):
                cases.append(("short", "R", d))
                if len(d) <= 2:
                    cases.append(("short", "S", d))
    elif family == "mutate":
        for i, seed in enumerate(media + rtcp_s):
            for desc, data in mutations(seed, reps=(i == 0 or len(seed) < 200)):
                cases.append(("to-receiver/seed%d:%s" % (i, desc), "R", data))
        for i, seed in enumerate(rtcp_r + [bytes(R.RtcpRtpfbPacket(fmt=1, ssrc=1, media_ssrc=ssrc, lost=[101, 102])),
                                        bytes(R.RtcpPsfbPacket(fmt=15, ssrc=1, media_ssrc=0, fci=R.pack_remb_fci(500000, [ssrc]))),
                                        bytes(R.RtcpPsfbPacket(fmt=1, ssrc=1, media_ssrc=ssrc))]):
            for desc, data in mutations(seed):
                cases.append(("to-sender/seed%d:%s" % (i, desc), "S", data))
    elif family == "boundary":
        hdr = struct.pack("!BBHLL", 0x90, 96, 7, 1000, ssrc)
        # every extension id 1..15 x length 0..4 in one- and two-byte form, with too little or enough data behind it
        for xid in range(1, 16):
            for xlen in range(0, 5):
                for avail in (0, 1, 2, 4, 8):
                    one = bytes([(xid << 4) | ((xlen - 1) & 0x0F)]) + b"\x01" * avail
                    one += b"\x00" * ((4 - len(one) % 4) % 4)
                    cases.append(("ext1/%d/%d/%d" % (xid, xlen, avail), "R", hdr + struct.pack("!HH", 0xBEDE, len(one) // 4) + one + b"\x10\x80pay"))
                    two = bytes([xid, xlen]) + b"\x01" * avail
                    two += b"\x00" * ((4 - len(two) % 4) % 4)
                    cases.append(("ext2/%d/%d/%d" % (xid, xlen, avail), "R", hdr + struct.pack("!HH", 0x1000, len(two) // 4) + two + b"\x10\x80pay"))
        for words in (0, 1, 2, 255, 65535):
            cases.append(("extlen/%d" % words, "R", hdr + struct.pack("!HH", 0xBEDE, words) + b"\x22\x00\x00\x00pay"))
        # RTX payloads of 0..2 bytes, RTX for unknown apt
        for n in range(0, 4):
            cases.append(("rtx/%d" % n, "R", struct.pack("!BBHLL", 0x80, 97, 9, 1000, rtx_ssrc) + b"\x00\x07\x10"[:n]))
        # codec descriptors: every truncation of each form
        for name, payload in (("vp8", bytes(VpxPayloadDescriptor(partition_start=1, partition_id=0, picture_id=300, tl0picidx=1, tid=(1, 0), keyidx=2)) + b"xy"),
                              ("stap-a", bytes([24]) + struct.pack("!H", 3) + b"\x65ab" + struct.pack("!H", 2) + b"\x41c"),
                              ("fu-a", bytes([0x7C, 0x85]) + b"abc"), ("nal31", bytes([31, 1, 2]))):
            for cut in range(len(payload) + 1):
                cases.append(("codec/%s/%d" % (name, cut), "R", struct.pack("!BBHLL", 0x80, 96, 11 + cut, 4000, ssrc) + payload[:cut]))
        # RTCP: count / length fields disagreeing with the data, REMB count 0..255 vs actual, padding
        for ptype in (200, 201, 202, 203, 205, 206, 207):
            for count in (0, 1, 2, 31):
                for words in (0, 1, 2, 6, 7, 13, 65535):
                    for avail in (0, 4, 8, 28, 52):
                        for pad in (0, 1):
                            body = (struct.pack("!L", ssrc) * 16)[:avail]
                            if pad and body:
                                body = body[:-1] + b"\xff"
                            cases.append(("rtcp/%d/%d/%d/%d/%d" % (ptype, count, words, avail, pad), "S" if ptype in (201, 205, 206) else "R",
                                          struct.pack("!BBH", 0x80 | (pad << 5) | count, ptype, words) + body))
        for claimed in list(range(0, 8)) + [64, 255]:
            for actual in (0, 1, 3):
                fci = b"REMB" + bytes([claimed, 0, 1, 0]) + struct.pack("!L", ssrc) * actual
                cases.append(("remb/%d/%d" % (claimed, actual), "S", bytes(R.RtcpPsfbPacket(fmt=15, ssrc=1, media_ssrc=0, fci=fci))))
    k = -1
    w = None
    for desc, dst, data in cases:
        k += 1
        if k % nparts != part:
            continue
        if w is None:
            w, _ = fresh(9 if start == "low" else 14)
            w.wire.clear()
        T.case(None)
        T.count("rtp/%s/%s" % (family, start))
        tr = w.dtls[dst]

        def deliver():
            if R.is_rtcp(data):
                t = w.loop.create_task(tr._handle_rtcp_data(data))
            else:
                t = w.loop.create_task(tr._handle_rtp_data(data, arrival_time_ms=int(w.loop.time() * 1000)))
            w.loop.drain()
            return t
        kind, val = guarded(deliver)
        sig = None
        if kind == "hang" or (kind == "ok" and val.done() and isinstance(val.exception(), Hang)):
            if kind == "ok":
                HANGS["n"] += 1
            try:
                w.close()
            except Exception:
                pass
            w, _ = fresh(9 if start == "low" else 14)
            w.wire.clear()
            tr = w.dtls[dst]
            if confirmed_hang(deliver):
                kind = "hang"
            else:
                T.count("slow-but-not-hung")
                kind, val = "ok", w.loop.create_task(asyncio.sleep(0))
                w.loop.drain()
        if kind == "hang":
            sig = ("rtp/hangs", "handling %d bytes did not finish within 10 s of CPU" % len(data))
        elif kind == "raised":
            sig = ("rtp/raises/" + type(val).__name__, "%s: %s" % (type(val).__name__, val))
        elif val.done() and val.exception() is not None:
            e = val.exception()
            sig = ("rtp/raises/" + type(e).__name__, "%s: %s out of the transport's handler" % (type(e).__name__, e))
        else:
            dead = [(t, e) for t, e in w.loop.dead_tasks()]
            if dead:
                t, e = dead[0]
                sig = ("rtp/task-died/" + type(e).__name__, "%s died: %s: %s" % (getattr(t.get_coro(), "__qualname__", "?"), type(e).__name__, e))
        w.wire.clear()
        if sig is None and w.receiver._RTCRtpReceiver__decoder_thread is None:
            # a (forged) RTCP BYE for the stream's SSRC ends the stream: that is what BYE means; start over
            T.count("rtp/stream-ended-by-bye")
            w.close()
            w = None
            continue
        if sig:
            T.violation("%s|%s" % (sig[0], desc.split(":")[0].split("/")[0]), sig[0], "%s [%s to %s, %d bytes, stream start %s]" % (
                sig[1], desc, "receiver" if dst == "R" else "sender", len(data), start),
                dict(kind="rtp", dst=dst, data=data.hex(), desc=desc, start=start))
            w.close()
            w = None
    if w is not None:
        # afterwards a valid frame still flows through to the decoder
        w.violations = []
        n0 = len(w.tapped)
        # (a forged packet with the right SSRC may have moved the receiver's idea of the sequence space by up to half the
        # number space - without SRTP nothing can prevent that; the stream must recover once real traffic has gone past the
        # 128-packet window, so enough frames are sent for that)
        w.script += [2] * 80
        w.max_points = w.point + 800
        while True:
            m = w.menu()
            if not m or w.script_pos >= len(w.script) and not w.wire:
                break
            w.apply(m[0])
        if len(w.tapped) - n0 < 1:
            T.violation("rtp/wedged|batch", "rtp/wedged", "after a batch of %s datagrams no further frame reaches the decoder [stream start %s]" % (family, start),
                        dict(kind="rtp", dst="R", data="", desc="batch", start=start))
        w.close()
    if part == 0:
        T.sample(dict(kind="rtp-family", family=family, start=start, cases=len(cases)))
    return T


def empty_datagram(T):
    """aioice passes an empty UDP datagram through: RTCDtlsTransport._recv_next must cope"""
    import asyncio
    import aiortc.rtcdtlstransport as D
    from vt.loop import VLoop
    from props.c04 import FakeIce, certs
    loop = VLoop().install()
    try:
        ice = FakeIce("controlling")
        t = D.RTCDtlsTransport(ice, [certs()["A"]])
        t.encrypted = True
        for data in (b"", b"\x00", b"\x80", b"\x80\xc8", b"\xc0", b"\x40abc"):
            ice.queue.put_nowait(data)
            T.case(None)
            T.count("dtls/_recv_next")
            try:
                loop.run_until(t._recv_next(), max_time=5.0)
            except Exception as e:
                T.violation("dtls/recv-next-raises/" + type(e).__name__, "dtls/recv-next-raises",
                            "%s: %s for a %d-byte datagram %r" % (type(e).__name__, e, len(data), data), dict(kind="dtls", data=data.hex()))
    finally:
        loop.uninstall()


_GOOD = {}


def good_frames(codec):
    """three genuinely valid encoded frames of the codec (made with the library's own encoders)"""
    import fractions
    import av
    from aiortc.codecs import get_encoder, depayload
    name = codec.mimeType
    if name in _GOOD:
        return _GOOD[name]
    enc = get_encoder(codec)
    out = []
    for k in range(3):
        if name.startswith("audio"):
            f = av.AudioFrame(format="s16", layout="stereo" if "opus" in name else "mono", samples=960 if "opus" in name else 160)
            for pl in f.planes:
                pl.update(bytes(pl.buffer_size))
            f.sample_rate = 48000 if "opus" in name else 8000
            f.pts = k * f.samples
            f.time_base = fractions.Fraction(1, f.sample_rate)
            payloads, ts = enc.encode(f)
        else:
            f = av.VideoFrame(width=64, height=48, format="yuv420p")
            for pl in f.planes:
                pl.update(bytes(pl.buffer_size))
            f.pts = k * 3000
            f.time_base = fractions.Fraction(1, 90000)
            payloads, ts = enc.encode(f, force_keyframe=True)
        out.append(b"".join(depayload(codec, p) for p in payloads))
    _GOOD[name] = out
    return out


# ----------------------------------------------------------------------------- family D: the decoder worker (the tail of the receive path)
def decoder_family(T):
    """Codec payloads as they come out of the jitter buffer are handed to the real `decoder_worker` (run in a real thread,
    as in production): whatever the payload, the worker must survive, keep decoding later frames and end the track when
    told to."""
    import queue
    import threading
    import aiortc.rtcrtpreceiver as RX
    from aiortc.jitterbuffer import JitterFrame
    from aiortc.rtcrtpparameters import RTCRtpCodecParameters
    from vt.loop import VLoop
    codecs = [RTCRtpCodecParameters(mimeType="audio/opus", clockRate=48000, channels=2, payloadType=96),
              RTCRtpCodecParameters(mimeType="audio/PCMU", clockRate=8000, channels=1, payloadType=0),
              RTCRtpCodecParameters(mimeType="audio/PCMA", clockRate=8000, channels=1, payloadType=8),
              RTCRtpCodecParameters(mimeType="video/VP8", clockRate=90000, payloadType=97),
              RTCRtpCodecParameters(mimeType="video/H264", clockRate=90000, payloadType=98)]
    payloads = [b"", b"\x00", b"\xff", b"\xff\xff\xff", bytes(range(40)), b"\x7f" * 160, b"\x00\x00\x00\x01\x65", b"\x80" * 1200]
    errors = []
    old_hook = threading.excepthook
    threading.excepthook = lambda args: errors.append("%s: %s" % (args.exc_type.__name__, args.exc_value))
    try:
        for codec in codecs:
            for bad in payloads:
                T.case(None)
                T.count("decoder-worker")
                loop = VLoop().install()
                try:
                    in_q = queue.Queue()
                    track = RX.RemoteStreamTrack(kind=codec.mimeType.split("/")[0])
                    del errors[:]
                    th = threading.Thread(target=RX.decoder_worker, args=(loop, in_q, track._queue), name="decoder-under-test")
                    th.start()
                    goods = good_frames(codec)
                    for k, data in enumerate([goods[0], bad, goods[1], goods[2]]):
                        in_q.put((codec, JitterFrame(data=data, timestamp=3000 * k)))
                    in_q.put(None)
                    th.join(10.0)
                    loop.drain()
                    got = []
                    while not track._queue.empty():
                        got.append(track._queue.get_nowait())
                    sig = None
                    if th.is_alive():
                        sig = ("decoder/hangs", "the decoder worker did not finish")
                    elif errors:
                        sig = ("decoder/worker-died", "the decoder thread died: %s" % errors[0])
                    elif not got or got[-1] is not None:
                        sig = ("decoder/track-not-ended", "the track was not told that it has ended")
                    elif len(got) - 1 < 2:
                        sig = ("decoder/stops-decoding", "only %d frames were decoded from 3 valid frames: nothing is decoded any more "
                               "after the bad frame" % (len(got) - 1))
                    if sig:
                        T.violation("%s|%s" % (sig[0], codec.name), sig[0], "%s [codec %s, a frame of %d bytes %r between valid frames]" % (
                            sig[1], codec.mimeType, len(bad), bad[:8]), dict(kind="decoder", codec=codec.mimeType, data=bad.hex()))
                finally:
                    loop.uninstall()
    finally:
        threading.excepthook = old_hook


# ----------------------------------------------------------------------------- entry points
def run(tier, seed):
    thorough = tier == "thorough"
    tasks = []
    for i in range(len(parser_targets())):
        n = 4
        tasks += [("parsers_task", (i, p, n)) for p in range(n)]
    for st in STATES:
        for fam in ("mutate", "boundary") + (("short",) if st in ("established-idle", "server-before-init") or thorough else ()):
            n = 8 if fam != "short" else 4
            tasks += [("sctp_task", (st, fam, p, n)) for p in range(n)]
        # the same states with the association's TSNs straddling 2^32 (boundary products always, mutations in the thorough tier)
        if st.startswith("established"):
            for fam in ("boundary",) + (("mutate",) if thorough or st == "established-outstanding" else ()):
                tasks += [("sctp_task", (st + "@wrap", fam, p, 8)) for p in range(8)]
    for start in ("low", "wrap"):
        for fam in ("short", "mutate", "boundary"):
            n = 4
            tasks += [("rtp_task", (fam, start, p, n)) for p in range(n)]
    total = Tally()
    for fname in ("parsers_task", "sctp_task", "rtp_task"):
        total.merge(pmap("props.c05", fname, [t for f, t in tasks if f == fname], seed=seed))
    budgeted(total, "empty_datagram", empty_datagram, total)
    budgeted(total, "decoder_family", decoder_family, total)
    return result(
        PID, total,
        rule="families, each enumerated completely: (P) 10 wire parsers x {every truncation, every single-bit flip, every byte "
             "replaced by 00/01/7F/80/FF} of the 42 test fixtures and generated packets, and every byte string of length 0-2 plus "
             "every string of length 3-8 over {00,01,7F,80,FF}: value or ValueError only, within 1 s of CPU (a hit is confirmed with 10 s on a fresh object before it is reported); (S) the real "
             "RTCSctpTransport._handle_data in 8 protocol states (server before INIT, client COOKIE-WAIT, COOKIE-ECHOED, established "
             "idle / with data outstanding / with a partial message in reassembly / with a gap before a held fragment / with a stream reset pending; the established ones "
             "also with both TSN spaces straddling 2^32): the same mutations "
             "of 17 live packets (right verification tag, checksum RE-SEALED so that they reach chunk processing; every 7th flip also "
             "unsealed) and boundary products for every length, count and offset field (chunk length 0..n+8 and 65535, truncated "
             "bodies, parameter lengths {0,1,3,4,5,8,12,65535}, SACK gap blocks incl. start>end and 300 x 65535, TSNs at +-1 / "
             "2^31 around the live association, stream ids, PPIDs, DCEP OPEN lengths and invalid UTF-8, FORWARD TSN lists, bundled "
             "INIT): no exception out of the entry point, CPU watchdog, container growth <= 64 + len, rejected packets leave the "
             "canonical association state unchanged, and valid traffic still flows afterwards; (M) RTCDtlsTransport._handle_rtp_data/"
             "_handle_rtcp_data with a live RTCRtpReceiver/RTCRtpSender behind the real router (stream start low / at the wrap): "
             "mutations of captured live packets, every extension id 1-15 x length 0-4 in one/two-byte form, RTX payloads 0-3 bytes, "
             "every truncation of VP8 / STAP-A / FU-A descriptors, RTCP count/length products, REMB count vs actual; the empty "
             "datagram through _recv_next; (D) the real decoder_worker in a real thread for Opus / PCMU / PCMA / VP8 / H.264 x an "
             "empty, tiny, garbage or oversized frame between valid ones: the worker survives and still ends the track. distinct by construction (a case = (family, position, value))",
        assumptions=["arbitrary byte strings beyond the enumerated families are not covered",
                     "CPU budget 1 s per datagram, 10 s on the confirming re-run (a 1200-byte DATA chunk costs microseconds)"],
        min_distinct=1000)


def replay(rep):
    r = rep["replay"]
    print({k: (v if k != "data" else v[:120]) for k, v in r.items()})
    if r["kind"] == "parser":
        name, fn, _, _ = next(t for t in parser_targets() if t[0] == r["target"])
        kind, val = guarded(fn, bytes.fromhex(r["data"]))
        print(kind, repr(val)[:200])
        return 1 if kind == "hang" or (kind == "raised" and not isinstance(val, ValueError)) else 0
    if r["kind"] == "sctp":
        w, victim = build_state(r["state"])
        data = bytes.fromhex(r["data"])
        t = w.loop.create_task(w.sctp[victim]._handle_data(data))
        kind, val = guarded(w.loop.drain)
        print(kind, val, t.done() and t.exception())
        return 1
    return 1
