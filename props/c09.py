"""C09 - session descriptions survive parse/serialise round trips (E-enum).

(a) every description produced by createOffer / createAnswer / localDescription over the C03
    configuration product: str(parse(s)) == s, and parsing recovers the fields the peer connection put in
    (compared with the live objects: transceivers, senders, ICE gatherers, DTLS transports, SCTP transport);
(b) structurally valid SessionDescription objects from a product of small domains for the optional
    attributes: parse(str(d)) is field-equal and str is a fixed point;
(c) idempotence on accepted text: for every text of (a), (b) and every single line deletion, duplication
    and adjacent-line swap that the parser accepts, r = str(parse(t)) satisfies str(parse(r)) == r;
(d) candidate lines: full product of candidate shapes, exact round trip, also through the signalling
    helpers object_to_string / object_from_string.
"""
import itertools
import json

from aiortc import sdp as SDP
from aiortc.contrib.signaling import object_from_string, object_to_string
from aiortc.rtcdtlstransport import RTCDtlsFingerprint, RTCDtlsParameters
from aiortc.rtcicetransport import RTCIceCandidate, RTCIceParameters
from aiortc.rtcrtpparameters import (RTCRtcpFeedback, RTCRtpCodecParameters, RTCRtpHeaderExtensionParameters,
                                     RTCRtpParameters)
from aiortc.rtcsctptransport import RTCSctpCapabilities
from aiortc import RTCSessionDescription
from props import c03
from vt.enumcheck import Tally, pmap, result
from vt.pcworld import PcWorld

PID = "C09"


# ----------------------------------------------------------------------------- helpers
def fixed_point(text):
    """Returns None or (clause, detail)."""
    try:
        d = SDP.SessionDescription.parse(text)
        r = str(d)
    except Exception as e:
        return ("generated/parse-raises", "%s: %s" % (type(e).__name__, e))
    if r != text:
        a, b = text.split("\r\n"), r.split("\r\n")
        i = next((k for k in range(min(len(a), len(b))) if a[k] != b[k]), min(len(a), len(b)))
        return ("generated/not-a-fixed-point", "line %d: %r became %r" % (i, a[i] if i < len(a) else None, b[i] if i < len(b) else None))
    return None


def idempotent(text):
    """For text the parser accepts: one round of parse+serialise is idempotent. None / (clause, detail) / 'rejected'."""
    try:
        r = str(SDP.SessionDescription.parse(text))
    except Exception:
        return "rejected"          # parser exceptions are C05's concern
    try:
        r2 = str(SDP.SessionDescription.parse(r))
    except Exception as e:
        return ("idempotence/reparse-raises", "own output rejected: %s: %s" % (type(e).__name__, e))
    if r2 != r:
        a, b = r.split("\r\n"), r2.split("\r\n")
        i = next((k for k in range(min(len(a), len(b))) if a[k] != b[k]), min(len(a), len(b)))
        return ("idempotence/second-round-differs", "line %d: %r then %r" % (i, a[i] if i < len(a) else None, b[i] if i < len(b) else None))
    return None


def line_edits(text):
    lines = text.split("\r\n")
    if lines and lines[-1] == "":
        lines = lines[:-1]
    for i in range(len(lines)):
        yield "del", i, "\r\n".join(lines[:i] + lines[i + 1:]) + "\r\n"
        yield "dup", i, "\r\n".join(lines[:i + 1] + lines[i:]) + "\r\n"
        if i + 1 < len(lines):
            yield "swap", i, "\r\n".join(lines[:i] + [lines[i + 1], lines[i]] + lines[i + 2:]) + "\r\n"


# ----------------------------------------------------------------------------- (a) generated descriptions
def recover(pc, desc, applied):
    """Compare the parsed description with the live objects of the peer connection that generated it."""
    out = []
    d = SDP.SessionDescription.parse(desc.sdp)
    mids = [m.rtp.muxId for m in d.media]
    bundle = next((g.items for g in d.group if g.semantic == "BUNDLE"), None)
    if bundle is None or list(bundle) != mids:
        out.append(("recover/bundle", "BUNDLE %r, mids %r" % (bundle, mids)))
    if not any(g.semantic == "WMS" for g in d.msid_semantic):
        out.append(("recover/msid-semantic", "no WMS group"))
    trans = {t.mid: t for t in pc.getTransceivers() if t.mid is not None}
    used = set()
    for i, m in enumerate(d.media):
        if m.kind in ("audio", "video"):
            t = trans.get(m.rtp.muxId)
            if t is None:
                # before setLocalDescription the mid is not assigned to the transceiver yet: match by m-line order
                cands = [x for x in pc.getTransceivers() if x.kind == m.kind]
                t = next((x for x in cands if x.mid is None and id(x) not in used), None)
                if t is not None:
                    used.add(id(t))
                if t is None:
                    out.append(("recover/transceiver", "m-section %r has no transceiver" % m.rtp.muxId))
                    continue
            dtls = t.receiver.transport
            if m.kind != t.kind:
                out.append(("recover/kind", "%s vs %s" % (m.kind, t.kind)))
            want_dir = t.currentDirection if (desc.type == "answer" and applied) else None
            if want_dir is not None and m.direction != want_dir:
                out.append(("recover/direction", "mid %s: %s, transceiver currentDirection %s" % (m.rtp.muxId, m.direction, want_dir)))
            if desc.type == "offer" and m.direction != t.direction:
                out.append(("recover/direction", "mid %s: %s, transceiver direction %s" % (m.rtp.muxId, m.direction, t.direction)))
            if list(m.rtp.codecs) != list(t._codecs):
                out.append(("recover/codecs", "mid %s: parsed %r, transceiver %r" % (m.rtp.muxId, m.rtp.codecs[:2], t._codecs[:2])))
            if [c.payloadType for c in t._codecs] != list(m.fmt):
                out.append(("recover/fmt", "mid %s: m-line formats %r" % (m.rtp.muxId, m.fmt)))
            if list(m.rtp.headerExtensions) != list(t._headerExtensions):
                out.append(("recover/header-extensions", "mid %s" % m.rtp.muxId))
            ssrcs = [s.ssrc for s in m.ssrc]
            has_rtx = any(c.mimeType.lower().endswith("/rtx") for c in t._codecs)
            want = [t.sender._ssrc] + ([t.sender._rtx_ssrc] if has_rtx else [])
            if ssrcs != want or any(not s.cname for s in m.ssrc):
                out.append(("recover/ssrc", "mid %s: %r, sender %r" % (m.rtp.muxId, ssrcs, want)))
            groups = [(g.semantic, list(g.items)) for g in m.ssrc_group]
            if groups != ([("FID", want)] if has_rtx else []):
                out.append(("recover/ssrc-group", "mid %s: %r" % (m.rtp.muxId, groups)))
            if m.msid != "%s %s" % (t.sender._stream_id, t.sender._track_id):
                out.append(("recover/msid", "mid %s: %r" % (m.rtp.muxId, m.msid)))
            if not m.rtcp_mux or m.rtcp_port != 9:
                out.append(("recover/rtcp", "mid %s: rtcp-mux %r rtcp port %r" % (m.rtp.muxId, m.rtcp_mux, m.rtcp_port)))
            if m.profile != "UDP/TLS/RTP/SAVPF":
                out.append(("recover/profile", m.profile))
        else:
            sctp = pc.sctp
            if sctp is None:
                out.append(("recover/sctp", "application section without SCTP transport"))
                continue
            dtls = sctp.transport
            if m.profile == "UDP/DTLS/SCTP":
                if m.sctp_port != sctp.port or list(m.fmt) != ["webrtc-datachannel"]:
                    out.append(("recover/sctp-port", "%r vs %r" % (m.sctp_port, sctp.port)))
            else:
                if list(m.fmt) != [sctp.port] or sctp.port not in m.sctpmap:
                    out.append(("recover/sctpmap", "%r %r" % (m.fmt, m.sctpmap)))
            if m.sctpCapabilities is None or m.sctpCapabilities.maxMessageSize != sctp.getCapabilities().maxMessageSize:
                out.append(("recover/max-message-size", "%r" % (m.sctpCapabilities,)))
        ice = dtls.transport.iceGatherer
        lp = ice.getLocalParameters()
        if (m.ice.usernameFragment, m.ice.password) != (lp.usernameFragment, lp.password):
            out.append(("recover/ice-credentials", "mid %s" % m.rtp.muxId))
        want_c = [SDP.candidate_to_sdp(c) for c in ice.getLocalCandidates()]
        got_c = [SDP.candidate_to_sdp(c) for c in m.ice_candidates]
        if applied and got_c != want_c:
            out.append(("recover/candidates", "mid %s: %r vs gatherer %r" % (m.rtp.muxId, got_c, want_c)))
        if applied and want_c:
            c0 = ice.getLocalCandidates()[0]
            if (m.host, m.port) != (c0.ip, c0.port) or not m.ice_candidates_complete:
                out.append(("recover/port", "mid %s: c=%s port %s end-of-candidates %s" % (m.rtp.muxId, m.host, m.port, m.ice_candidates_complete)))
        elif not want_c and (m.port != 9):
            out.append(("recover/port", "mid %s: port %s without candidates" % (m.rtp.muxId, m.port)))
        fps = [(f.algorithm, f.value) for f in dtls.getLocalParameters().fingerprints]
        if m.dtls is None or [(f.algorithm, f.value) for f in m.dtls.fingerprints] != fps:
            out.append(("recover/fingerprints", "mid %s" % m.rtp.muxId))
        elif m.dtls.role not in (("auto",) if desc.type == "offer" else ("client", "server")):
            out.append(("recover/dtls-role", "mid %s: role %r in a %s (transport role %s)" % (m.rtp.muxId, m.dtls.role, desc.type, dtls._role)))
    return out


def generated(cfg, followup, T, texts):
    """Negotiate a configuration, collecting every description that the library generates along the way."""
    w = PcWorld()
    try:
        try:
            a, b, chans = c03.build(w, cfg)
        except Exception:
            return
        seq = []

        def note(pc, desc, applied):
            # field recovery is judged against the live objects at the moment the description is generated
            rec = [] if applied is None or fixed_point(desc.sdp) else recover(pc, desc, applied)
            seq.append((pc, desc, applied, rec))

        async def go(offerer, answerer):
            offer = await offerer.createOffer()
            note(offerer, offer, False)
            await offerer.setLocalDescription(offer)
            note(offerer, offerer.localDescription, True)
            await answerer.setRemoteDescription(offerer.localDescription)
            answer = await answerer.createAnswer()
            note(answerer, answer, False)
            await answerer.setLocalDescription(answer)
            note(answerer, answerer.localDescription, True)
            await offerer.setRemoteDescription(answerer.localDescription)
            note(offerer, offerer.remoteDescription, None)
        try:
            w.run(go(a, b))
            if followup == "swap-roles":
                b.addTransceiver("video", direction="sendonly")
                w.run(go(b, a))
            elif followup == "add":
                a.addTransceiver("video" if not any(m[0] == "video" for m in cfg["media"]) else "audio", direction="sendrecv")
                if "a" not in chans:
                    a.createDataChannel("late")
                w.run(go(a, b))
        except Exception:
            pass                      # failures of the negotiation itself are C03's business
        for pc, desc, applied, rec in seq:
            T.case(desc.sdp)
            T.count("generated-descriptions")
            texts.setdefault(desc.sdp, None)
            v = fixed_point(desc.sdp)
            if v:
                T.violation(v[0], v[0], "%s [%s of %s]" % (v[1], desc.type, c03.cfg_key(cfg, followup)),
                            dict(kind="text", sdp=desc.sdp))
                continue
            if applied is None:
                continue
            for clause, detail in rec[:2]:
                T.violation(clause, clause, "%s [%s of %s]" % (detail, desc.type, c03.cfg_key(cfg, followup)),
                            dict(kind="text", sdp=desc.sdp))
    finally:
        w.close()


def gen_task(args):
    tier, shard, nshard = args
    T = Tally()
    texts = {}        # insertion ordered: the k-th distinct text is the same one in every run
    cs = c03.configs("quick")
    if tier == "thorough":
        cs = cs + [c for i, c in enumerate(c03.configs("thorough")) if len(c["media"]) == 2 and i % 7 == 0]
    for i, cfg in enumerate(cs):
        if i % nshard != shard:
            continue
        generated(cfg, None, T, texts)
        if cfg["ob"] == cfg["ab"] and all(m[3] == "default" for m in cfg["media"]):
            generated(cfg, "swap-roles", T, texts)
            generated(cfg, "add", T, texts)
    # (c) idempotence on the generated texts and their single-line edits (one text in every 5 gets the full edit set)
    for k, text in enumerate(texts):
        v = idempotent(text)
        if v not in (None, "rejected"):
            T.violation(v[0], v[0], v[1], dict(kind="text", sdp=text))
        if k % (15 if tier == "quick" else 3) == 0:
            edit_family(text, T)
    if shard == 0 and texts:
        T.sample(dict(kind="generated-description", first_lines=next(iter(texts)).split("\r\n")[:12]))
    return T


def edit_family(text, T):
    for kind, i, t2 in line_edits(text):
        T.count("edited-texts")
        T.case(t2)
        v = idempotent(t2)
        if v == "rejected":
            T.count("edited-texts-rejected-by-parser")
            continue
        if v:
            T.violation(v[0] + "/" + kind, v[0], "%s [after %s of line %d: %r]" % (v[1], kind, i, text.split("\r\n")[i][:60]),
                        dict(kind="text", sdp=t2))


# ----------------------------------------------------------------------------- (b) constructed descriptions
def constructed(task):
    shard, nshard, tier = task
    T = Tally()
    k = -1
    opt2 = [False, True]
    fps = [RTCDtlsFingerprint(algorithm="sha-256", value="AA:BB"), RTCDtlsFingerprint(algorithm="sha-512", value="CC:DD:EE")]
    cand = [RTCIceCandidate(component=1, foundation="f1", ip="192.168.0.2", port=5000, priority=2130706431, protocol="udp", type="host"),
            RTCIceCandidate(component=1, foundation="f2", ip="2001:db8::1", port=6000, priority=1, protocol="tcp", type="srflx",
                            relatedAddress="10.0.0.1", relatedPort=7, tcpType="passive")]
    kinds_lists = [[x] for x in ("audio", "video", "app", "legacy")] + [list(p) for p in itertools.product(("audio", "video", "app"), repeat=2)]
    if tier == "thorough":
        kinds_lists += [list(p) for p in itertools.product(("audio", "video", "app", "legacy"), repeat=3)]
    for kinds in kinds_lists:
        for (host, group, lite, rtcp, ssrc, fb, params, ext, cands, role) in itertools.product(
                opt2, opt2, opt2, [0, 1, 2], [0, 1, 2], opt2, opt2, [0, 1, 2], [0, 1, 2], ["auto", "client", "server"]):
            k += 1
            if k % nshard != shard:
                continue
            d = SDP.SessionDescription()
            d.origin = "- 123 456 IN IP4 0.0.0.0"
            if host:
                d.host = "203.0.113.5"
            if group:
                d.group.append(SDP.GroupDescription(semantic="BUNDLE", items=[str(i) for i in range(len(kinds))]))
            d.msid_semantic.append(SDP.GroupDescription(semantic="WMS", items=["*"]))
            for i, kind in enumerate(kinds):
                if kind in ("audio", "video"):
                    codecs = [RTCRtpCodecParameters(mimeType=kind + ("/opus" if kind == "audio" else "/VP8"), clockRate=48000 if kind == "audio" else 90000,
                                                    channels=2 if kind == "audio" else None, payloadType=96 + i)]
                    if fb:
                        codecs[0].rtcpFeedback = [RTCRtcpFeedback(type="nack"), RTCRtcpFeedback(type="nack", parameter="pli")]
                    if params:
                        # integer 0 and empty-string values are values, not flags
                        # values may contain '=' themselves (base64 padding in sprop-parameter-sets / config)
                        codecs[0].parameters = {"minptime": 10, "useinbandfec": 0, "stereo": 0, "config": "AQID=", "x": "a=b"} if kind == "audio" else \
                            {"x-flag": None, "level": "3", "x-empty": "", "max-fs": 0, "sprop-parameter-sets": "Z0IAH5WoFAFuQA==,aM48gA=="}
                    if kind == "video" and fb:
                        codecs.append(RTCRtpCodecParameters(mimeType="video/rtx", clockRate=90000, payloadType=97 + i, parameters={"apt": 96 + i}))
                    m = SDP.MediaDescription(kind=kind, port=9 if not cands else 5000, profile="UDP/TLS/RTP/SAVPF", fmt=[c.payloadType for c in codecs])
                    m.direction = SDP.DIRECTIONS[(i + rtcp + ssrc) % 4]
                    m.rtp = RTCRtpParameters(codecs=codecs, muxId=str(i),
                                             headerExtensions=[RTCRtpHeaderExtensionParameters(id=j + 1, uri="urn:ext:%d" % j) for j in range(ext)])
                    if rtcp:
                        m.rtcp_port = 9
                        m.rtcp_mux = True
                        if rtcp == 2:
                            m.rtcp_host = "0.0.0.0"
                    if ssrc:
                        # (ssrc == 1: every section uses the SAME ssrc value - sections are independent of each other)
                        base = 1000 + (i if ssrc == 2 else 0)
                        m.ssrc = [SDP.SsrcDescription(ssrc=base, cname="c%d" % i, msid="s t" if ssrc == 2 else None)]
                        if ssrc == 2:
                            m.ssrc.append(SDP.SsrcDescription(ssrc=2000 + i, cname="c", mslabel="m", label="l"))
                            m.ssrc_group = [SDP.GroupDescription(semantic="FID", items=[1000 + i, 2000 + i])]
                        m.msid = "stream track%d" % i
                elif kind == "app":
                    m = SDP.MediaDescription(kind="application", port=9, profile="UDP/DTLS/SCTP", fmt=["webrtc-datachannel"])
                    m.rtp.muxId = str(i)
                    m.sctp_port = 5000
                    # 0 is a value ("any size", RFC 8841), not an absent attribute
                    m.sctpCapabilities = RTCSctpCapabilities(maxMessageSize=[65536, 0, 262144][ext])
                else:
                    m = SDP.MediaDescription(kind="application", port=9, profile="DTLS/SCTP", fmt=[5000])
                    m.rtp.muxId = str(i)
                    m.sctpmap[5000] = "webrtc-datachannel 65535"
                    if params:
                        m.sctpCapabilities = RTCSctpCapabilities(maxMessageSize=[1024, 0, 1][ext])
                if host:
                    m.host = "198.51.100.7" if cands != 2 else "2001:db8::2"
                m.ice = RTCIceParameters(usernameFragment="ufrag%d" % i, password="pwd%d" % i, iceLite=lite)
                m.ice_candidates = cand[:cands]
                m.ice_candidates_complete = cands == 2
                if ext == 2:
                    m.ice_options = "trickle"
                m.dtls = RTCDtlsParameters(fingerprints=fps[:1 + (i % 2)], role=role)
                d.media.append(m)
            text = str(d)
            T.case(text)
            T.count("constructed-descriptions")
            try:
                p = SDP.SessionDescription.parse(text)
            except Exception as e:
                T.violation("constructed/parse-raises", "constructed/parse-raises", "%s: %s" % (type(e).__name__, e), dict(kind="text", sdp=text))
                continue
            if str(p) != text:
                T.violation("constructed/not-a-fixed-point", "constructed/not-a-fixed-point", "re-serialised text differs", dict(kind="text", sdp=text))
                continue
            bad = compare_desc(d, p)
            if bad:
                T.violation("constructed/field/" + bad[0], "constructed/field-lost", "%s: built %r parsed %r" % bad, dict(kind="text", sdp=text))
            if k % 97 == 0:
                edit_family(text, T)
    return T


def compare_desc(d, p):
    for f in ("version", "origin", "name", "time", "host"):
        if getattr(d, f) != getattr(p, f):
            return (f, getattr(d, f), getattr(p, f))
    if [(g.semantic, list(map(str, g.items))) for g in d.group] != [(g.semantic, list(map(str, g.items))) for g in p.group]:
        return ("group", d.group, p.group)
    if len(d.media) != len(p.media):
        return ("media-count", len(d.media), len(p.media))
    for i, (a, b) in enumerate(zip(d.media, p.media)):
        for f in ("kind", "port", "host", "profile", "direction", "msid", "rtcp_port", "rtcp_host", "rtcp_mux", "sctpmap", "sctp_port",
                  "ice_candidates_complete", "ice_options"):
            if getattr(a, f) != getattr(b, f):
                return ("media%d.%s" % (i, f), getattr(a, f), getattr(b, f))
        if list(map(str, a.fmt)) != list(map(str, b.fmt)):
            return ("media%d.fmt" % i, a.fmt, b.fmt)
        if a.rtp.muxId != b.rtp.muxId or list(a.rtp.codecs) != list(b.rtp.codecs) or list(a.rtp.headerExtensions) != list(b.rtp.headerExtensions):
            return ("media%d.rtp" % i, a.rtp, b.rtp)
        if list(a.ssrc) != list(b.ssrc) or [(g.semantic, list(g.items)) for g in a.ssrc_group] != [(g.semantic, list(g.items)) for g in b.ssrc_group]:
            return ("media%d.ssrc" % i, a.ssrc, b.ssrc)
        if (a.sctpCapabilities and a.sctpCapabilities.maxMessageSize) != (b.sctpCapabilities and b.sctpCapabilities.maxMessageSize):
            return ("media%d.max-message-size" % i, a.sctpCapabilities, b.sctpCapabilities)
        if (a.ice.usernameFragment, a.ice.password, a.ice.iceLite) != (b.ice.usernameFragment, b.ice.password, b.ice.iceLite):
            return ("media%d.ice" % i, a.ice, b.ice)
        if [SDP.candidate_to_sdp(c) for c in a.ice_candidates] != [SDP.candidate_to_sdp(c) for c in b.ice_candidates]:
            return ("media%d.candidates" % i, a.ice_candidates, b.ice_candidates)
        if b.dtls is None or [(f.algorithm, f.value) for f in a.dtls.fingerprints] != [(f.algorithm, f.value) for f in b.dtls.fingerprints] \
                or a.dtls.role != b.dtls.role:
            return ("media%d.dtls" % i, a.dtls, b.dtls)
    return None


# ----------------------------------------------------------------------------- (d) candidate lines
def candidates(task):
    T = Tally()
    n = 0
    for typ, proto, ip, rel, tcptype, prio, port, comp, found in itertools.product(
            ["host", "srflx", "prflx", "relay"], ["udp", "tcp", "UDP"], ["192.168.1.10", "2001:db8::10", "host-name.local"],
            [None, ("10.0.0.1", 0), ("::1", 65535), ("10.0.0.2", None), (None, 9)], [None, "active", "passive", "so"],
            [0, 1, 2130706431, 2 ** 32 - 1], [0, 1, 9, 65535], [1, 2, 256], ["1", "abcd1234", "0" * 32]):
        n += 1
        line = "%s %d %s %d %s %d typ %s" % (found, comp, proto, prio, ip, port, typ)
        if rel:
            if rel[0] is not None:
                line += " raddr %s" % rel[0]
            if rel[1] is not None:
                line += " rport %d" % rel[1]
        if tcptype:
            line += " tcptype %s" % tcptype
        try:
            c = SDP.candidate_from_sdp(line)
            back = SDP.candidate_to_sdp(c)
            ok = back == line
            if ok:
                c.sdpMid, c.sdpMLineIndex = "0", 0
                c2 = object_from_string(object_to_string(c))
                ok = SDP.candidate_to_sdp(c2) == line and c2.sdpMid == "0" and c2.sdpMLineIndex == 0
                if not ok:
                    back = "via signalling helpers: " + SDP.candidate_to_sdp(c2)
            if ok:
                # the same line trickled for a second media section: each parsed candidate is its own object, the first one
                # (and a candidate parsed as part of a description) keeps what it had
                first = SDP.candidate_from_sdp(line)
                first.sdpMid, first.sdpMLineIndex = "0", 0
                msg0 = object_to_string(first)
                msg1 = json.loads(msg0)
                msg1["id"], msg1["label"] = "1", 1
                second = object_from_string(json.dumps(msg1))
                plain = SDP.candidate_from_sdp(line)
                if object_to_string(first) != msg0 or (second.sdpMid, second.sdpMLineIndex) != ("1", 1) or plain.sdpMid is not None:
                    ok = False
                    back = "parsed twice: the first candidate now says mid %r / index %r, a fresh parse says mid %r" % (
                        first.sdpMid, first.sdpMLineIndex, plain.sdpMid)
        except Exception as e:
            ok = False
            back = "%s: %s" % (type(e).__name__, e)
        if not ok:
            T.violation("candidate/roundtrip", "candidate/roundtrip", "%r -> %r" % (line, back), dict(kind="candidate", line=line))
    T.case(None, n)
    T.count("candidate-lines", n)
    # descriptions through the signalling helpers
    d = RTCSessionDescription(sdp="v=0\r\n", type="offer")
    d2 = object_from_string(object_to_string(d))
    if (d2.sdp, d2.type) != (d.sdp, d.type):
        T.violation("signalling/description", "signalling/description", "description changed through object_to_string", dict(kind="candidate", line=""))
    T.sample(dict(kind="candidate-line", example="abcd1234 1 tcp 1 2001:db8::10 9 typ srflx raddr ::1 rport 65535 tcptype passive"))
    return T


# ----------------------------------------------------------------------------- entry points
def run(tier, seed):
    ns = 32
    total = pmap("props.c09", "gen_task", [(tier, s, ns) for s in range(ns)], seed=seed)
    total.merge(pmap("props.c09", "constructed", [(s, 16, tier) for s in range(16)], seed=seed))
    total.merge(pmap("props.c09", "candidates", [0], seed=seed))
    return result(
        PID, total,
        rule="(a) every description returned by createOffer/createAnswer and every local/remoteDescription over the C03 quick "
             "configuration product (+ role-swap and add-media follow-ups; thorough: + two-item offers): str(parse(s)) == s and the "
             "parsed fields equal the live objects (transceiver kind/mid/direction/codecs/header extensions, sender SSRCs and FID "
             "group, msid, rtcp-mux, ICE credentials and candidates, c=/port from the default candidate, fingerprints and role, "
             "sctp-port / sctpmap, max-message-size, BUNDLE, WMS); (b) constructed descriptions: product of present/absent x 2-3 "
             "values for every optional attribute over 1-2 (thorough 3) sections of {audio, video, application, legacy "
             "application}: field-equal after parse and a fixed point; (c) for every text of (a) and a 1-in-15 (thorough 1-in-3) "
             "selection: every single line deletion, duplication and adjacent swap that the parser accepts must be idempotent "
             "under one round of parse+serialise; (d) 103 680 candidate lines (type x protocol x address family x raddr/rport x "
             "tcptype x priority/port/component bounds) exact round trip, also through object_to_string/object_from_string, and parsed twice for two media sections (each parse its own object). "
             "distinct = distinct texts",
        assumptions=["texts the parser rejects with an exception are not this property's concern (C05)",
                     "field values of constructed descriptions come from 2-3 listed values per attribute"])


def replay(rep):
    r = rep["replay"]
    if r["kind"] == "candidate":
        line = r["line"]
        try:
            back = SDP.candidate_to_sdp(SDP.candidate_from_sdp(line))
        except Exception as e:
            back = repr(e)
        print(repr(line), "->", repr(back))
        return 0 if back == line else 1
    text = r["sdp"]
    print(text)
    for f in (fixed_point, idempotent):
        v = f(text)
        print(f.__name__, "->", v)
    return 1
