"""C07 - RTP and RTCP packets round-trip through serialisation with exact field semantics (E-enum)."""
import itertools
from struct import pack

from aiortc import rtp as R
from aiortc.rtcrtpparameters import RTCRtpHeaderExtensionParameters, RTCRtpParameters
from vt.enumcheck import Tally, pmap, result

PID = "C07"
M32 = 2 ** 32 - 1
URIS = [
    ("mid", "urn:ietf:params:rtp-hdrext:sdes:mid"),
    ("repaired_rtp_stream_id", "urn:ietf:params:rtp-hdrext:sdes:repaired-rtp-stream-id"),
    ("rtp_stream_id", "urn:ietf:params:rtp-hdrext:sdes:rtp-stream-id"),
    ("abs_send_time", "http://www.webrtc.org/experiments/rtp-hdrext/abs-send-time"),
    ("transmission_offset", "urn:ietf:params:rtp-hdrext:toffset"),
    ("audio_level", "urn:ietf:params:rtp-hdrext:ssrc-audio-level"),
    ("transport_sequence_number",
     "http://www.ietf.org/id/draft-holmer-rmcat-transport-wide-cc-extensions-01"),
]
NAMES = [n for n, _ in URIS]
IDMAPS = {
    "1-7": [1, 2, 3, 4, 5, 6, 7],
    "8-14": [8, 9, 10, 11, 12, 13, 14],
    "15-21": [15, 16, 17, 18, 19, 20, 21],
    "mixed": [14, 15, 1, 255, 7, 100, 2],
}
VALUES = {
    "mid": ["0", "", "m" * 16, "m" * 17, "é" * 100, "x" * 255],
    "repaired_rtp_stream_id": ["r", "r" * 17],
    "rtp_stream_id": ["hi", ""],
    "abs_send_time": [0, 1, 0xFFFFFF],
    "transmission_offset": [0, 1, -1, 2 ** 23 - 1, -(2 ** 23)],
    "audio_level": [(False, 0), (True, 127), (True, 30)],
    "transport_sequence_number": [0, 65535],
}


def make_map(idmap, configured):
    m = R.HeaderExtensionsMap()
    params = RTCRtpParameters()
    for i, (name, uri) in enumerate(URIS):
        if name in configured:
            params.headerExtensions.append(RTCRtpHeaderExtensionParameters(id=IDMAPS[idmap][i], uri=uri))
    m.configure(params)
    return m


def rtp_fields(p):
    return (p.version, p.marker, p.payload_type, p.sequence_number, p.timestamp, p.ssrc, list(p.csrc),
            bytes(p.payload), p.padding_size, p.extensions)


def rtp_case(T, spec):
    """spec: dict(hdr=(marker, pt, seq, ts, ssrc), ncsrc, padding, plen, idmap, configured, values)"""
    marker, pt, seq, ts, ssrc = spec["hdr"]
    configured = spec["configured"]
    m = make_map(spec["idmap"], configured)
    p = R.RtpPacket(payload_type=pt, marker=marker, sequence_number=seq, timestamp=ts, ssrc=ssrc,
                    payload=bytes((i * 13 + 5) & 0xFF for i in range(spec["plen"])))
    p.csrc = [(0xFFFFFFFF - i * 0x01010101) & M32 for i in range(spec["ncsrc"])]
    p.padding_size = spec["padding"]
    expected = R.HeaderExtensions()
    for name, v in spec["values"].items():
        v = tuple(v) if isinstance(v, list) else v
        setattr(p.extensions, name, v)
        if name in configured:
            setattr(expected, name, v)
    sig = None
    try:
        data = p.serialize(m)
    except Exception as e:
        return ("rtp/serialize-raises", "%s: %s" % (type(e).__name__, e))
    T.case(data)
    try:
        q = R.RtpPacket.parse(data, m)
    except Exception as e:
        return ("rtp/parse-raises", "%s: %s" % (type(e).__name__, e))
    want = rtp_fields(p)[:-1] + (expected,)
    got = rtp_fields(q)
    if want != got:
        for n, a, b in zip(("version", "marker", "pt", "seq", "ts", "ssrc", "csrc", "payload", "padding", "extensions"),
                           want, got):
            if a != b:
                return ("rtp/field-" + n, "sent %r parsed %r" % (_s(a), _s(b)))
    try:
        again = q.serialize(m)
    except Exception as e:
        return ("rtp/reserialize-raises", "%s: %s" % (type(e).__name__, e))
    pad = spec["padding"]
    if pad:
        # padding bytes are random by design: compare everything but them, and the trailing count byte
        ok = len(again) == len(data) and again[:len(data) - pad] == data[:len(data) - pad] and again[-1] == data[-1]
    else:
        ok = again == data
    if not ok:
        return ("rtp/bytes", "serialize(parse(b)) != b (%d vs %d bytes)" % (len(again), len(data)))
    # RTX encapsulation is exactly invertible (through the wire as well)
    rtx = R.wrap_rtx(q, payload_type=97, sequence_number=(seq + 7) & 0xFFFF, ssrc=(ssrc ^ 0x55) & M32)
    try:
        rtx2 = R.RtpPacket.parse(rtx.serialize(m), m)
        back = R.unwrap_rtx(rtx2, payload_type=pt, ssrc=ssrc)
    except Exception as e:
        return ("rtx/raises", "%s: %s" % (type(e).__name__, e))
    a, b = rtp_fields(q), rtp_fields(back)
    a = a[:8] + a[9:]
    b = b[:8] + b[9:]
    if a != b:
        return ("rtx/not-inverse", "original %r recovered %r" % (_s(a), _s(b)))
    if (rtx2.payload_type, rtx2.sequence_number, rtx2.ssrc, rtx2.timestamp, rtx2.marker) != \
            (97, (seq + 7) & 0xFFFF, (ssrc ^ 0x55) & M32, ts, marker):
        return ("rtx/header", "rtx packet header wrong")
    return sig


def _s(x):
    s = repr(x)
    return s if len(s) < 160 else s[:160] + "..."


def rtp_task(task):
    kind, tier, shard, nshard = task
    T = Tally()
    thorough = tier == "thorough"
    i = -1

    def mine():
        nonlocal i
        i += 1
        return i % nshard == shard

    def run(spec):
        T.count("rtp/" + kind)
        v = rtp_case(T, spec)
        if T.evaluations % 4999 == 1:
            T.sample(dict(family="rtp/" + kind, spec={k: (sorted(x) if isinstance(x, (set, frozenset)) else x)
                                                      for k, x in spec.items()}))
        if v:
            which = ",".join(sorted(set(spec["values"]) & set(spec["configured"]))) if v[0].startswith("rtp/") else ""
            key = v[0]
            if "extensions" in v[0] or "raises" in v[0]:
                key += "/" + _blame(spec, v)
            spec = dict(spec, configured=sorted(spec["configured"]))
            T.violation(key, v[0], v[1] + (" [set+configured: %s]" % which), dict(kind="rtp", spec=spec))

    if kind == "header":
        hdrs = itertools.product([0, 1], [0, 96, 127], [0, 65535], [0, M32], [0, M32])
        for hdr in hdrs:
            for ncsrc in (0, 1, 15):
                for padding in (0, 1, 255):
                    for plen in (0, 1, 1200):
                        for (idmap, names) in (("1-7", ()), ("1-7", ("mid", "abs_send_time")), ("15-21", ("mid",))):
                            if mine():
                                run(dict(hdr=hdr, ncsrc=ncsrc, padding=padding, plen=plen, idmap=idmap,
                                         configured=set(names), values={n: VALUES[n][0] for n in names}))
    elif kind == "subsets":
        # configured subset x set subset x id map (values: first of each domain)
        for idmap in IDMAPS:
            for cbits in range(128):
                configured = {NAMES[j] for j in range(7) if cbits >> j & 1}
                for vbits in range(128):
                    if mine():
                        values = {NAMES[j]: VALUES[NAMES[j]][(cbits + vbits) % len(VALUES[NAMES[j]])]
                                  for j in range(7) if vbits >> j & 1}
                        run(dict(hdr=(1, 96, 65535, 0, 1), ncsrc=1, padding=0, plen=3, idmap=idmap,
                                 configured=configured, values=values))
    elif kind == "values":
        # all extensions configured; every subset set; full product of the value domains of the set ones
        for idmap in IDMAPS:
            for vbits in range(1, 128):
                names = [NAMES[j] for j in range(7) if vbits >> j & 1]
                doms = [VALUES[n] if (thorough or len(names) <= 4) else VALUES[n][:2] for n in names]
                for combo in itertools.product(*doms):
                    if mine():
                        run(dict(hdr=(0, 111, 1, M32, 7), ncsrc=0, padding=(1 if vbits % 3 == 0 else 0), plen=2,
                                 idmap=idmap, configured=set(NAMES), values=dict(zip(names, combo))))
    return T


def _blame(spec, v):
    # single-extension blame: which single set+configured extension fails on its own?
    out = []
    for n in sorted(set(spec["values"]) & set(spec["configured"])):
        s2 = dict(spec, values={n: spec["values"][n]}, configured={n})
        if rtp_case(Tally(), s2):
            out.append(n)
    return "+".join(out) or "combination"


# ----------------------------------------------------------------------------- RTCP
LOST = [-(2 ** 23), -(2 ** 23) + 1, -1, 0, 1, 2 ** 23 - 2, 2 ** 23 - 1]


def rinfo(k):
    u32 = [0, 1, M32 - 1, M32]
    return R.RtcpReceiverInfo(ssrc=u32[k % 4], fraction_lost=[0, 1, 254, 255][(k // 4) % 4],
                              packets_lost=LOST[k % 7], highest_sequence=u32[(k // 2) % 4], jitter=u32[(k // 3) % 4],
                              lsr=u32[(k // 5) % 4], dlsr=u32[(k // 7) % 4])


def rtcp_roundtrip(T, packets, fam):
    """packets: list of RTCP packet objects forming one compound."""
    T.count("rtcp/" + fam)
    try:
        data = b"".join(bytes(p) for p in packets)
    except Exception as e:
        return ("rtcp/serialize-raises", "%s: %s" % (type(e).__name__, e))
    T.case(data)
    try:
        parsed = R.RtcpPacket.parse(data)
    except Exception as e:
        return ("rtcp/parse-raises", "%s: %s" % (type(e).__name__, e))
    if len(parsed) != len(packets):
        return ("rtcp/count", "%d packets parsed from a compound of %d" % (len(parsed), len(packets)))
    for a, b in zip(packets, parsed):
        if type(a) is not type(b):
            return ("rtcp/class", "%s parsed as %s" % (type(a).__name__, type(b).__name__))
        if isinstance(a, R.RtcpRtpfbPacket):
            same = (a.fmt, a.ssrc, a.media_ssrc) == (b.fmt, b.ssrc, b.media_ssrc) and \
                {x & 0xFFFF for x in a.lost} == set(b.lost) and len(set(b.lost)) == len(b.lost)
        else:
            same = a == b
        if not same:
            return ("rtcp/fields", "%s sent %s parsed %s" % (type(a).__name__, _s(a), _s(b)))
    try:
        again = b"".join(bytes(p) for p in parsed)
    except Exception as e:
        return ("rtcp/reserialize-raises", "%s: %s" % (type(e).__name__, e))
    if again != data:
        return ("rtcp/bytes", "re-serialised compound differs")
    return None


def representatives():
    si = R.RtcpSenderInfo(ntp_timestamp=2 ** 64 - 1, rtp_timestamp=M32, packet_count=0, octet_count=1)
    return {
        "SR": [R.RtcpSrPacket(ssrc=1, sender_info=si, reports=[rinfo(3)]), R.RtcpSrPacket(ssrc=M32, sender_info=si)],
        "RR": [R.RtcpRrPacket(ssrc=2, reports=[rinfo(1), rinfo(6)]), R.RtcpRrPacket(ssrc=0)],
        "SDES": [R.RtcpSdesPacket(chunks=[R.RtcpSourceInfo(ssrc=3, items=[(1, b"cname-x")])]),
                 R.RtcpSdesPacket(chunks=[])],
        "BYE": [R.RtcpByePacket(sources=[4, 5]), R.RtcpByePacket(sources=[])],
        "RTPFB": [R.RtcpRtpfbPacket(fmt=1, ssrc=6, media_ssrc=7, lost=[10, 12, 40]),
                  R.RtcpRtpfbPacket(fmt=1, ssrc=6, media_ssrc=7, lost=[])],
        "PSFB": [R.RtcpPsfbPacket(fmt=1, ssrc=8, media_ssrc=9),
                 R.RtcpPsfbPacket(fmt=15, ssrc=8, media_ssrc=0, fci=R.pack_remb_fci(4160000, [9, 10]))],
    }


def rtcp_task(task):
    kind, tier, shard, nshard = task
    T = Tally()
    thorough = tier == "thorough"
    i = -1

    def mine():
        nonlocal i
        i += 1
        return i % nshard == shard

    def run(packets, fam, tag):
        v = rtcp_roundtrip(T, packets, fam)
        if T.evaluations % 2999 == 1:
            T.sample(dict(family="rtcp/" + fam, compound=[_s(p) for p in packets]))
        if v:
            T.violation("%s/%s" % (v[0], tag), v[0], v[1], dict(kind="rtcp", hex=_tryhex(packets), desc=[_s(p) for p in packets]))

    if kind == "reports":
        u32 = [0, 1, M32 - 1, M32]
        for n in range(0, 32):
            for k in range(28):
                if mine():
                    reports = [rinfo(k + j) for j in range(n)]
                    run([R.RtcpRrPacket(ssrc=u32[k % 4], reports=reports)], "RR", "RR")
                    si = R.RtcpSenderInfo(ntp_timestamp=[0, 1, 2 ** 64 - 2, 2 ** 64 - 1][k % 4], rtp_timestamp=u32[(k // 4) % 4],
                                          packet_count=u32[(k // 2) % 4], octet_count=u32[(k // 3) % 4])
                    run([R.RtcpSrPacket(ssrc=u32[(k + 1) % 4], sender_info=si, reports=reports)], "SR", "SR")
        # one report, full field product
        for f in itertools.product(u32, [0, 1, 254, 255], LOST, u32, u32, [0, M32], [0, M32]):
            if mine():
                ri = R.RtcpReceiverInfo(*f)
                run([R.RtcpRrPacket(ssrc=5, reports=[ri])], "RR1", "RR")
    elif kind == "sdes-bye":
        item_dom = [(1, 0), (1, 1), (1, 255), (2, 3), (8, 2)]
        item_lists = [[]] + [[a] for a in item_dom] + [[a, b] for a in item_dom for b in item_dom]
        for nchunks in range(0, 4):
            for combo in itertools.product(range(len(item_lists)), repeat=nchunks):
                if nchunks == 3 and not thorough and any(c > 10 for c in combo):
                    continue
                if mine():
                    chunks = [R.RtcpSourceInfo(ssrc=[0, 1, M32][j % 3],
                                               items=[(t, bytes((q + j) & 0xFF or 1 for q in range(l))) for t, l in item_lists[c]])
                              for j, c in enumerate(combo)]
                    run([R.RtcpSdesPacket(chunks=chunks)], "SDES", "SDES")
        for n in range(0, 32):
            for base in (0, 1, M32 - 31):
                if mine():
                    run([R.RtcpByePacket(sources=[(base + j) & M32 for j in range(n)])], "BYE", "BYE")
    elif kind == "fb":
        for fmt in (1, 2, 3, 4, 15, 31):
            for ssrc in (0, M32):
                for media in (0, 1, M32):
                    for flen in (0, 4, 8, 12, 1024):
                        if mine():
                            run([R.RtcpPsfbPacket(fmt=fmt, ssrc=ssrc, media_ssrc=media, fci=bytes((j * 3 + 1) & 0xFF for j in range(flen)))],
                                "PSFB", "PSFB")
        for fmt in (1, 15):
            for ssrc in (0, M32):
                for lost in ([], [0], [65535], [1, 2, 17], [1, 18], [100, 5000, 5001, 65535]):
                    if mine():
                        run([R.RtcpRtpfbPacket(fmt=fmt, ssrc=ssrc, media_ssrc=M32 - ssrc, lost=lost)], "RTPFB", "RTPFB")
    elif kind == "compound":
        reps = representatives()
        flat = [(n, p) for n, ps in reps.items() for p in ps]
        for L in (1, 2, 3):
            for combo in itertools.product(flat, repeat=L):
                if mine():
                    run([p for _, p in combo], "compound", "compound:" + "+".join(n for n, _ in combo))
    return T


def _tryhex(packets):
    try:
        return b"".join(bytes(p) for p in packets).hex()
    except Exception:
        return None


# ----------------------------------------------------------------------------- NACK sets
def nack_starts():
    return list(range(0, 41)) + list(range(65500, 65536))


def nack_task(task):
    start, width, lo, hi = task
    T = Tally()
    n = 0
    for bits in range(lo, hi):
        members = [start] + [(start + 1 + j) & 0xFFFF for j in range(width) if bits >> j & 1]
        want = set(members)
        # the lists the library itself builds are numerically sorted; an application / a refactoring may use serial order
        for order, lost in (("numeric", sorted(members)), ("serial", members)):
            n += 1
            sig = None
            try:
                data = bytes(R.RtcpRtpfbPacket(fmt=1, ssrc=1, media_ssrc=2, lost=lost))
            except Exception as e:
                sig = ("nack/serialize-raises", "%s: %s lost=%r" % (type(e).__name__, e, lost[:6]))
            else:
                try:
                    (q,) = R.RtcpPacket.parse(data)
                    got = q.lost
                except Exception as e:
                    sig = ("nack/parse-raises", "%s: %s" % (type(e).__name__, e))
                else:
                    if any(not (0 <= x <= 0xFFFF) for x in got):
                        sig = ("nack/not-16-bit", "parsed sequence numbers %r outside 0..65535 (sent %r)" % (
                            [x for x in got if not 0 <= x <= 0xFFFF][:4], lost[:6]))
                    elif set(got) != want:
                        sig = ("nack/set-differs", "sent %r parsed %r" % (sorted(want)[:8], sorted(got)[:8]))
                    elif len(data) > 12 + 4 * len(want):
                        sig = ("nack/size", "more FCI entries than sequence numbers")
            if sig:
                T.violation("%s/%s" % (sig[0], order), sig[0], sig[1], dict(kind="nack", lost=lost))
    T.case(None, n)
    T.count("nack", n)
    if lo == 0:
        T.sample(dict(family="nack", start=start, subset_bits=hi - 1, width=width))
    return T


def nack_wire_task(task):
    """wire -> parse direction: every (pid, blp) entry with pid near the wrap / zero and ALL 2^16 bitmasks."""
    pids, blp_lo, blp_hi = task
    T = Tally()
    n = 0
    for pid in pids:
        for blp in range(blp_lo, blp_hi):
            n += 1
            data = R.pack_rtcp_packet(R.RTCP_RTPFB, 1, pack("!LLHH", 1, 2, pid, blp))
            (q,) = R.RtcpPacket.parse(data)
            want = {pid} | {(pid + d + 1) & 0xFFFF for d in range(16) if blp >> d & 1}
            if set(q.lost) != want or len(q.lost) != len(want):
                T.violation("nack/wire-set", "nack/wire-set",
                            "entry pid=%d blp=%#06x denotes %r, parsed %r" % (pid, blp, sorted(want)[:6], sorted(q.lost)[:6]),
                            dict(kind="nack-wire", pid=pid, blp=blp))
    T.case(None, n)
    T.count("nack-wire", n)
    return T


# ----------------------------------------------------------------------------- REMB, loss saturation
def remb_task(task):
    kind, lo, hi = task
    T = Tally()
    n = 0

    def one(b, ssrcs):
        nonlocal n
        n += 1
        try:
            fci = R.pack_remb_fci(b, ssrcs)
            (q,) = R.RtcpPacket.parse(bytes(R.RtcpPsfbPacket(fmt=15, ssrc=1, media_ssrc=0, fci=fci)))
            got, got_ssrcs = R.unpack_remb_fci(q.fci)
        except Exception as e:
            T.violation("remb/raises", "remb/raises", "%s: %s bitrate=%d" % (type(e).__name__, e, b), dict(kind="remb", bitrate=b, ssrcs=ssrcs))
            return
        ok = got <= b and got_ssrcs == ssrcs and (b == got or (b - got) * (1 << 17) < b)
        if not ok:
            T.violation("remb/value", "remb/value", "bitrate %d decoded as %d (ssrcs %r -> %r)" % (b, got, ssrcs[:3], got_ssrcs[:3]),
                        dict(kind="remb", bitrate=b, ssrcs=ssrcs))

    if kind == "small":
        for b in range(lo, hi):
            one(b, [b & 0xFF, M32] if b % 1000 == 0 else [7])
    elif kind == "exp":
        for e in range(lo, hi):
            for m in (0, 1, 2, 3, 2 ** 17 - 1, 2 ** 17, 2 ** 17 + 1, 2 ** 18 - 2, 2 ** 18 - 1):
                for d in (-1, 0, 1):
                    for low in (0, (1 << e) - 1, (1 << e) >> 1):
                        b = (m << e) + d + low
                        if b >= 0 and b.bit_length() <= 18 + 63:
                            one(b, [])
        for count in range(0, 256):
            if lo == 0:
                one(123456789, [(j * 2654435761) & M32 for j in range(count)])
    T.case(None, n)
    T.count("remb", n)
    return T


def loss_saturation(T):
    n = 0
    for x in list(range(-(2 ** 23) - 3, -(2 ** 23) + 4)) + list(range(-3, 4)) + list(range(2 ** 23 - 4, 2 ** 23 + 4)) + \
            [2 ** 31, -(2 ** 31), 2 ** 40, -(2 ** 40)]:
        n += 1
        c = R.clamp_packets_lost(x)
        want = max(-(2 ** 23), min(2 ** 23 - 1, x))
        ok = c == want
        if ok:
            try:
                ok = R.unpack_packets_lost(R.pack_packets_lost(c)) == c
            except Exception:
                ok = False
        if not ok:
            T.violation("loss/saturation", "loss/saturation", "clamp(%d) = %r, expected %d and a 3-byte round trip" % (x, c, want),
                        dict(kind="loss", value=x))
    T.case(None, n)
    T.count("loss", n)


# ----------------------------------------------------------------------------- entry points
def run(tier, seed):
    thorough = tier == "thorough"
    ns = 8
    total = pmap("props.c07", "rtp_task", [(k, tier, s, ns) for k in ("header", "subsets", "values") for s in range(ns)], seed=seed)
    total.merge(pmap("props.c07", "rtcp_task",
                     [(k, tier, s, 4) for k in ("reports", "sdes-bye", "fb", "compound") for s in range(4)], seed=seed))
    width = 18 if thorough else 12
    chunk = 1 << (width - (4 if thorough else 1))
    ntasks = [(s, width, lo, lo + chunk) for s in nack_starts() for lo in range(0, 1 << width, chunk)]
    total.merge(pmap("props.c07", "nack_task", ntasks, seed=seed))
    wp = sorted(set([0, 1, 2, 40, 32767, 32768] + list(range(65519, 65536)))) if thorough else [0, 1, 65519, 65520, 65534, 65535]
    total.merge(pmap("props.c07", "nack_wire_task", [([p], lo, lo + 16384) for p in wp for lo in range(0, 65536, 16384)], seed=seed))
    rt = [("small", lo, lo + 65536) for lo in range(0, 1 << 20, 65536)] + [("exp", e, e + 4) for e in range(0, 64, 4)]
    total.merge(pmap("props.c07", "remb_task", rt, seed=seed))
    loss_saturation(total)
    return result(
        PID, total,
        rule="RTP: header product (marker, pt, seq, ts, ssrc at bounds) x CSRC count {0,1,15} x padding {0,1,255} x payload "
             "{0,1,1200}; every configured-subset x every set-subset of the 7 header extensions x 4 id maps (1-7, 8-14, 15-21 "
             "two-byte, mixed incl. 255); all extensions configured x every subset set x product of value domains (mid of "
             "0/1/16/17/200/255 bytes flips one/two-byte form): parse(serialize(p)) field-equal, serialize(parse(b)) == b "
             "outside random padding, RTX wrap/unwrap through the wire is the identity. RTCP: SR/RR with 0..31 reports and "
             "boundary fields, 1 report x full field product, SDES 0-3 chunks x item lists (lengths 0,1,255), BYE 0..31, PSFB/"
             "RTPFB, all compounds of length <= 3 over 12 representatives. NACK: starts 0..40 and 65500..65535 x ALL subsets of "
             "the next %d sequence numbers, in numeric and serial order, compared as sets of 16-bit numbers; wire->parse for "
             "pids at the wrap x all 2^16 bitmasks. REMB: all bitrates < 2^20 and boundary mantissas x every exponent: never "
             "rounds up, relative error < 2^-17, 0..255 SSRCs. Loss: clamp saturation + 3-byte round trip. distinct = distinct "
             "serialised packets / distinct by construction for NACK, REMB" % width,
        assumptions=["field values strictly between the listed boundary values are not enumerated",
                     "RTP padding bytes are random by design and excluded from the byte comparison"])


def replay(rep):
    r = rep["replay"]
    k = r["kind"]
    if k == "rtp":
        spec = dict(r["spec"], configured=set(r["spec"]["configured"]), hdr=tuple(r["spec"]["hdr"]))
        v = rtp_case(Tally(), spec)
        print("spec:", r["spec"])
        if v:
            print("FAILS clause=%s: %s" % v)
            return 1
    elif k == "nack":
        try:
            data = bytes(R.RtcpRtpfbPacket(fmt=1, ssrc=1, media_ssrc=2, lost=r["lost"]))
            (q,) = R.RtcpPacket.parse(data)
            print("sent", r["lost"], "parsed", q.lost)
            if set(q.lost) != {x & 0xFFFF for x in r["lost"]}:
                print("FAILS: sets differ")
                return 1
        except Exception as e:
            print("FAILS", type(e).__name__, e)
            return 1
    elif k == "nack-wire":
        data = R.pack_rtcp_packet(R.RTCP_RTPFB, 1, pack("!LLHH", 1, 2, r["pid"], r["blp"]))
        (q,) = R.RtcpPacket.parse(data)
        want = {r["pid"]} | {(r["pid"] + d + 1) & 0xFFFF for d in range(16) if r["blp"] >> d & 1}
        print("entry denotes", sorted(want), "parsed", q.lost)
        if set(q.lost) != want:
            print("FAILS")
            return 1
    elif k == "remb":
        try:
            got = R.unpack_remb_fci(R.pack_remb_fci(r["bitrate"], r["ssrcs"]))
            print(r["bitrate"], "->", got[0])
            if got[0] > r["bitrate"] or got[1] != r["ssrcs"]:
                return 1
        except Exception as e:
            print("FAILS", type(e).__name__, e)
            return 1
    elif k == "rtcp":
        print(r["desc"])
        try:
            data = bytes.fromhex(r["hex"])
            print(R.RtcpPacket.parse(data))
        except Exception as e:
            print("FAILS", type(e).__name__, e)
        return 1
    elif k == "loss":
        print(R.clamp_packets_lost(r["value"]))
        return 1
    print("no violation")
    return 0
