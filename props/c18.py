"""C18 - RTCP receiver reports carry correct loss/jitter figures that always fit the wire.

E-bfs as a complete depth-bounded tree of arrival/report histories.  Each maximal history is replayed on
a fresh real `RTCRtpReceiver` (virtual loop, clock seam, transport stand-in that captures what
`_run_rtcp` actually sends) next to a reference model written directly from RFC 3550 A.1/A.3/A.8; the
emitted report blocks are compared with the model on every report.  The same tree is walked one level
deeper on the bare `StreamStatistics` object (copied per node).
"""
import copy
import itertools
import types

import aiortc.rtcrtpreceiver as RX
from aiortc import rtp as R
from aiortc.rtcrtpparameters import RTCRtpCodecParameters, RTCRtpDecodingParameters, RTCRtpReceiveParameters
from vt.enumcheck import Tally, pmap, result
from vt.loop import VLoop, HarnessError

PID = "C18"
M16 = 1 << 16
M32 = 1 << 32
CLOCKRATE = 8000
EPOCH = (3167 * 2 ** 32 - 400) / 8000      # ~1.70e9 s; in RTP clock units 50 ms below a multiple of 2^32: every history crosses it
SSRC_A, SSRC_B = 0x1111, 0x2222

# symbol = (seq step relative to the highest sequence seen, timestamp step, clock step in seconds, ssrc)
SYMBOLS = [
    ("new-frame", (1, 160, 0.020, "A")),
    ("same-ts", (1, 0, 0.0, "A")),
    ("lost-1", (2, 320, 0.040, "A")),
    ("lost-4", (5, 800, 0.100, "A")),
    ("dup", (0, 0, 0.020, "A")),
    ("late-1", (-1, -160, 0.020, "A")),
    ("late-3", (-3, -480, 0.0, "A")),
    ("gap-300", (300, 48000, 1.0, "A")),
    ("gap-32767", (32767, 160, 0.020, "A")),
    ("clock-back", (1, 160, -1.0, "A")),
    ("ts-jump", (1, 720000, 1.0, "A")),
    ("burst", (1, 160, 0.0, "A")),
    ("report", None),
    ("other-ssrc", (1, 160, 0.020, "B")),
    ("ts-back", (1, -320, 0.020, "A")),      # in sequence order, timestamp steps backwards (frames sent in decode order)
    # the wall clock is set while the stream runs (a device that booted in 1970 and then hears from NTP): + 10^9 seconds
    ("clock-set", (1, 160, 1.0e9, "A")),
]
NAMES = [n for n, _ in SYMBOLS]
STAT_NAMES = [n for n in NAMES if n != "other-ssrc"]
SYM = dict(SYMBOLS)


# ----------------------------------------------------------------------------- reference model (RFC 3550)
class RefStream:
    def __init__(self):
        self.base_seq = None
        self.max_seq = None
        self.cycles = 0
        self.received = 0
        self.jitter_q4 = 0
        self.last_arrival = None
        self.last_ts = None
        self.expected_prior = 0
        self.received_prior = 0

    def add(self, seq, ts, arrival):
        self.received += 1
        if self.base_seq is None:
            self.base_seq = seq
        in_order = self.max_seq is None or 0 < ((seq - self.max_seq) % M16) < 0x8000
        if not in_order:
            return
        if self.max_seq is not None and seq < self.max_seq:
            self.cycles += M16                      # A.1: sequence number wrapped
        self.max_seq = seq
        if self.last_ts is not None and ts != self.last_ts:
            dts = (ts - self.last_ts) % M32
            if dts >= 1 << 31:
                dts -= M32                            # A.8: 32-bit modular difference
            # A.8 computes transit times and their difference in 32-bit arithmetic
            d = ((arrival - self.last_arrival) - dts) % M32
            if d >= 1 << 31:
                d -= M32
            d = abs(d)
            self.jitter_q4 += d - ((self.jitter_q4 + 8) >> 4)
        self.last_arrival = arrival
        self.last_ts = ts

    @property
    def extended_max(self):
        return self.cycles + self.max_seq

    @property
    def expected(self):
        return self.extended_max - self.base_seq + 1

    @property
    def lost(self):
        return max(-(1 << 23), min((1 << 23) - 1, self.expected - self.received))

    def fraction(self):
        """A.3, consumes the interval."""
        expected_interval = self.expected - self.expected_prior
        self.expected_prior = self.expected
        received_interval = self.received - self.received_prior
        self.received_prior = self.received
        lost_interval = expected_interval - received_interval
        if expected_interval == 0 or lost_interval <= 0:
            return 0
        return (lost_interval << 8) // expected_interval

    def report(self):
        return dict(fraction_lost=self.fraction(), packets_lost=self.lost, highest_sequence=self.extended_max % M32,
                    jitter=self.jitter_q4 >> 4)


# ----------------------------------------------------------------------------- harness around the real receiver
class Clock:
    def __init__(self):
        self.now = EPOCH

    def time(self):
        return self.now


class _NoThread:
    def __init__(self, *a, **kw):
        pass

    def start(self):
        pass

    def join(self, *a):
        pass


class FakeTransport:
    state = "connected"
    _stats_id = "transport_x"

    def __init__(self):
        self.sent = []

    def _register_rtp_receiver(self, receiver, parameters):
        pass

    def _unregister_rtp_receiver(self, receiver):
        pass

    async def _send_rtp(self, data):
        self.sent.append(data)

    def _get_stats(self):
        from aiortc.stats import RTCStatsReport
        return RTCStatsReport()


class _Random:
    @staticmethod
    def random():
        return 0.5


_saved = {}


def install_seams(clock):
    for name in ("time", "threading", "random"):
        _saved.setdefault(name, getattr(RX, name))
    RX.time = clock
    RX.threading = types.SimpleNamespace(Thread=_NoThread)
    RX.random = _Random


def remove_seams():
    for k, v in _saved.items():
        setattr(RX, k, v)


def run_history(hist, seq0, ts0):
    """Replay one history on a fresh receiver. Returns None or (clause, detail, index of failing event)."""
    loop = VLoop().install()
    clock = Clock()
    install_seams(clock)
    try:
        tr = FakeTransport()
        rx = RX.RTCRtpReceiver("audio", tr)
        rx._set_rtcp_ssrc(0xABCD)
        rx._track = RX.RemoteStreamTrack(kind="audio")
        params = RTCRtpReceiveParameters(
            codecs=[RTCRtpCodecParameters(mimeType="audio/PCMU", clockRate=CLOCKRATE, channels=1, payloadType=0)],
            encodings=[RTCRtpDecodingParameters(ssrc=SSRC_A, payloadType=0), RTCRtpDecodingParameters(ssrc=SSRC_B, payloadType=0)])
        loop.run_until(rx.receive(params))
        loop.drain()
        ref = {}
        state = {"A": [None, None], "B": [None, None]}     # highest seq, ts of highest
        try:
            for i, name in enumerate(hist):
                sym = SYM[name]
                if sym is None:
                    before = len(tr.sent)
                    if not loop.fire_next_timer():
                        return ("report/rtcp-task-not-running", "no RTCP timer pending", i)
                    dead = loop.dead_tasks()
                    if dead:
                        t, e = dead[0]
                        return ("report/rtcp-task-died", "%s: %s" % (type(e).__name__, e), i)
                    blocks = []
                    for data in tr.sent[before:]:
                        for pkt in R.RtcpPacket.parse(data):
                            if isinstance(pkt, R.RtcpRrPacket):
                                blocks += pkt.reports
                    want = {ssrc: st.report() for ssrc, st in ref.items()}
                    got = {b.ssrc: dict(fraction_lost=b.fraction_lost, packets_lost=b.packets_lost,
                                        highest_sequence=b.highest_sequence, jitter=b.jitter) for b in blocks}
                    if set(got) != set(want):
                        return ("report/blocks", "report blocks for %r, streams seen %r" % (sorted(got), sorted(want)), i)
                    for ssrc in want:
                        for f in ("packets_lost", "fraction_lost", "highest_sequence", "jitter"):
                            if got[ssrc][f] != want[ssrc][f]:
                                return ("report/" + f, "ssrc %#x: reported %s=%d, RFC 3550 reference says %d" % (
                                    ssrc, f, got[ssrc][f], want[ssrc][f]), i)
                    continue
                dseq, dts, dclk, which = sym
                clock.now += dclk
                hi = state[which]
                if hi[0] is None:
                    seq, ts = (seq0 + (7 if which == "B" else 0)) % M16, (ts0 + (99 if which == "B" else 0)) % M32
                    hi[0], hi[1] = seq, ts
                else:
                    seq, ts = (hi[0] + dseq) % M16, (hi[1] + dts) % M32
                    if 0 < dseq < 0x8000:
                        hi[0], hi[1] = seq, ts
                ssrc = SSRC_A if which == "A" else SSRC_B
                pkt = R.RtpPacket(payload_type=0, sequence_number=seq, timestamp=ts, ssrc=ssrc, payload=b"\x00" * 20)
                loop.run_until(rx._handle_rtp_packet(pkt, arrival_time_ms=int(clock.now * 1000)))
                ref.setdefault(ssrc, RefStream()).add(seq, ts, int(clock.now * CLOCKRATE))
            # statistics API at the end of the history
            stats = loop.run_until(rx.getStats())
            for s in stats.values():
                if getattr(s, "type", None) == "inbound-rtp":
                    st = ref[s.ssrc]
                    if (s.packetsReceived, s.packetsLost, s.jitter) != (st.received, st.lost, st.jitter_q4 >> 4):
                        return ("stats/inbound", "getStats ssrc %#x: received/lost/jitter %r, reference %r" % (
                            s.ssrc, (s.packetsReceived, s.packetsLost, s.jitter), (st.received, st.lost, st.jitter_q4 >> 4)),
                            len(hist) - 1)
            return None
        finally:
            try:
                loop.run_until(rx.stop())
            except Exception:
                pass
            for t in loop.pending_tasks():
                t.cancel()
            loop.drain()
    finally:
        remove_seams()
        loop.uninstall()


def receiver_tree(task):
    depth, seq0, ts0, firsts = task
    T = Tally()
    n = 0
    for first in firsts:
        for rest in itertools.product(NAMES, repeat=depth - 1):
            hist = (first,) + rest
            if "report" not in hist:
                hist = hist + ("report",)           # every history is observed through at least one emitted report
            n += 1
            v = run_history(hist, seq0, ts0)
            if v:
                clause, detail, idx = v
                T.violation(clause, clause, "%s [start seq %d ts %d, history %r, failing event #%d]" % (detail, seq0, ts0, list(hist), idx),
                            dict(kind="receiver", history=list(hist), seq0=seq0, ts0=ts0))
    T.case(None, n)
    T.transitions = n * depth
    T.count("receiver-histories", n)
    T.sample(dict(kind="receiver-history", start_seq=seq0, start_ts=ts0, example=[firsts[0]] + NAMES[:depth - 1]), limit=1)
    return T


# ----------------------------------------------------------------------------- bare StreamStatistics tree
def stats_tree(task):
    depth, seq0, ts0, firsts = task
    T = Tally()
    clock = Clock()
    install_seams(clock)
    nodes = 0
    states = set()
    hist = []
    try:
        def rec(st, ref, hi, now, d):
            nonlocal nodes
            for name in (STAT_NAMES if (d > 0 or firsts is None) else firsts):
                sym = SYM[name]
                st2 = copy.copy(st)
                ref2 = copy.copy(ref)
                hi2 = hi
                now2 = now
                hist.append(name)
                nodes += 1
                bad = None
                try:
                    if sym is None:
                        if st2.max_seq is not None:
                            got = dict(fraction_lost=st2.fraction_lost, packets_lost=st2.packets_lost,
                                       highest_sequence=(st2.cycles + st2.max_seq) % M32, jitter=st2.jitter)
                            want = ref2.report()
                            # the extended highest sequence number is compared through the real receiver (report/highest_sequence)
                            if got != want:
                                f = next(k for k in got if got[k] != want[k])
                                bad = ("stats/" + f, "%s=%d, reference %d" % (f, got[f], want[f]))
                            else:
                                R.RtcpReceiverInfo(ssrc=1, lsr=0, dlsr=0, **got).__bytes__()
                    else:
                        dseq, dts, dclk, _ = sym
                        now2 = now + dclk
                        if hi is None:
                            seq, ts = seq0, ts0
                            hi2 = (seq, ts)
                        else:
                            seq, ts = (hi[0] + dseq) % M16, (hi[1] + dts) % M32
                            if 0 < dseq < 0x8000:
                                hi2 = (seq, ts)
                        clock.now = now2
                        st2.add(R.RtpPacket(payload_type=0, sequence_number=seq, timestamp=ts, ssrc=1))
                        ref2.add(seq, ts, int(now2 * CLOCKRATE))
                        got = (st2.packets_received, st2.packets_lost, st2.jitter, st2.packets_expected)
                        want = (ref2.received, ref2.lost, ref2.jitter_q4 >> 4, ref2.expected)
                        if got != want:
                            bad = ("stats/counters", "received/lost/jitter/expected %r, reference %r" % (got, want))
                except Exception as e:
                    bad = ("stats/raises", "%s: %s" % (type(e).__name__, e))
                if bad:
                    T.violation(bad[0], bad[0], "%s [start seq %d ts %d history %r]" % (bad[1], seq0, ts0, list(hist)),
                                dict(kind="stats", history=list(hist), seq0=seq0, ts0=ts0))
                else:
                    states.add(hash((ref2.received, ref2.max_seq, ref2.cycles, ref2.jitter_q4, ref2.expected_prior, ref2.received_prior)))
                    if d + 1 < depth:
                        rec(st2, ref2, hi2, now2, d + 1)
                hist.pop()
        rec(RX.StreamStatistics(CLOCKRATE), RefStream(), None, EPOCH, 0)
    finally:
        remove_seams()
    T.evaluations = nodes
    T.transitions = nodes
    T.distinct = len(states)
    T.count("stats-tree-nodes", nodes)
    return T


# ----------------------------------------------------------------------------- entry points
STARTS = [(65534, M32 - 500), (0, 0), (65534, 0), (0, M32 - 500)]


def run(tier, seed):
    thorough = tier == "thorough"
    tasks = []
    for k, (seq0, ts0) in enumerate(STARTS):
        depth = (5 if k == 0 else 4) if not thorough else (6 if k == 0 else 5)
        if depth >= 5:
            # split by the first two symbols
            tasks += [(depth, seq0, ts0, [f]) for f in NAMES]
        else:
            tasks += [(depth, seq0, ts0, NAMES[i::4]) for i in range(4)]
    total = pmap("props.c18", "receiver_tree", tasks, seed=seed)
    hist_n = total.evaluations
    sdepth = 7 if thorough else 6
    st = pmap("props.c18", "stats_tree", [(sdepth, s, t, [f]) for (s, t) in STARTS[:2 if not thorough else 4] for f in STAT_NAMES], seed=seed)
    total.merge(st)
    return result(
        PID, total,
        rule="complete tree of histories over 16 symbols (the wall clock being set forward by 10^9 s, in-order packet with the timestamp stepping backwards, new frame, same timestamp, 1/4 lost, duplicate, late by 1/3, +300 and "
             "+32767 sequence jumps, arrival clock jumping back 1 s, timestamp jump, burst, report timer fires, packet of a second "
             "SSRC) to depth %s from start (sequence, timestamp) in {65534,0} x {2^32-500,0}; each history replayed on a fresh real "
             "RTCRtpReceiver whose _run_rtcp task emits the report through a transport stand-in; every emitted report block "
             "(fraction lost, cumulative lost, extended highest sequence, jitter) and getStats() compared with an RFC 3550 A.1/A.3/"
             "A.8 reference model; the RTCP task must never die. Plus the same tree to depth %d on the bare StreamStatistics (copy "
             "per node, compared after every event). states = distinct reference-model states"
             % ("5 (wrap start) / 4" if not thorough else "6 (wrap start) / 5", sdepth),
        assumptions=["jitter reference follows the implementation's choice of pairing each new-timestamp packet with the previous "
                     "in-order packet; the statement fixes the recurrence and the modular difference, not the pairing",
                     "decoder thread replaced by a no-op (threading seam); report interval jitter fixed at 1.0 s (random seam)"],
        extra=dict(receiver_histories=hist_n, stats_tree_nodes=st.evaluations))


def replay(rep):
    r = rep["replay"]
    if r["kind"] == "receiver":
        v = run_history(tuple(r["history"]), r["seq0"], r["ts0"])
        print(r)
        if v:
            print("FAILS clause=%s: %s (event #%d)" % v)
            return 1
    else:
        T = Tally()
        hist = r["history"]
        # replay through the tree walker restricted to this path
        clock = Clock()
        install_seams(clock)
        try:
            st, ref, hi, now = RX.StreamStatistics(CLOCKRATE), RefStream(), None, EPOCH
            for name in hist:
                sym = SYM[name]
                if sym is None:
                    if st.max_seq is not None:
                        got = dict(fraction_lost=st.fraction_lost, packets_lost=st.packets_lost,
                                   highest_sequence=(st.cycles + st.max_seq) % M32, jitter=st.jitter)
                        want = ref.report()
                        print("report", got, want)
                        if got != want:
                            print("FAILS")
                            return 1
                else:
                    dseq, dts, dclk, _ = sym
                    now += dclk
                    if hi is None:
                        seq, ts = r["seq0"], r["ts0"]
                        hi = (seq, ts)
                    else:
                        seq, ts = (hi[0] + dseq) % M16, (hi[1] + dts) % M32
                        if 0 < dseq < 0x8000:
                            hi = (seq, ts)
                    clock.now = now
                    st.add(R.RtpPacket(payload_type=0, sequence_number=seq, timestamp=ts, ssrc=1))
                    ref.add(seq, ts, int(now * CLOCKRATE))
                    got = (st.packets_received, st.packets_lost, st.jitter, st.packets_expected)
                    want = (ref.received, ref.lost, ref.jitter_q4 >> 4, ref.expected)
                    print(name, seq, ts, got, want)
                    if got != want:
                        print("FAILS")
                        return 1
        finally:
            remove_seams()
    print("no violation")
    return 0
