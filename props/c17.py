"""C17 - behaviour does not depend on sequence-number origins (differential E-sched + exhaustive
serial-number arithmetic)."""
import multiprocessing as mp
import os

from props import sctp_common as C
from props import c02, c06
from vt.pairworld import PairWorld
from vt.sctpworld import SctpWorld, describe_datagram
from vt.sched_check import run_sched, replay_sched
import aiortc.rtcsctptransport as S
from aiortc import utils as U

PID = "C17"
M32 = 2 ** 32

# drivers: negotiated-channel ones take stream-sequence presets too
BASE = {}
for _n in ("D1", "D2", "D4", "D5", "D6"):
    BASE[_n] = C.drivers()[_n]
BASE["D5s"] = c02.DRIVERS["D5s"]
BASE["P1"] = c06.DRIVERS["P1"]
BASE["P3"] = c06.DRIVERS["P3"]
# a driver that closes channels so that RE-CONFIG request/response sequence numbers are used
BASE["X1"] = dict(
    setup="settled",
    channels=[C.chan("a", negotiated=0), C.chan("b", negotiated=1), C.chan("c", negotiated=2), C.chan("d", negotiated=3)],
    script=[[("send", "A", "a", C.pay("a", 0, 100)), ("close", "A", "a")],
            [("send", "B", "b", C.pay("b", 0, 100)), ("close", "B", "b")],
            # each side resets a second stream: its request sequence number has moved on (past 2^32 in the shifted world)
            [("send", "A", "c", C.pay("c", 0, 100)), ("close", "A", "c"), ("send", "B", "d", C.pay("d", 0, 100)), ("close", "B", "d")]],
)

VARIANTS = {
    "v1": dict(tsn={"A": M32 - 1, "B": M32 - 3}, sseq=65534),
    "v2": dict(tsn={"A": M32 - 3, "B": M32 - 8}, sseq=65535),
    "v3": dict(tsn={"A": M32 - 8, "B": M32 - 1}, sseq=65533),
}


def shifted(spec, var):
    s = dict(spec)
    s["tsn"] = var["tsn"]
    s["sseq"] = {c["label"]: var["sseq"] for c in spec["channels"] if c.get("negotiated") is not None}
    return s


def shape(world):
    out = []
    for side in "AB":
        s = world.sctp[side]
        out.append((s.state, len(s._sent_queue), len(s._outbound_queue), len(s._data_channel_queue),
                    s._flight_size, s._cwnd, len(s._sack_misordered),
                    sorted((sid, len(st.reassembly)) for sid, st in s._inbound_streams.items() if st.reassembly),
                    sorted((cid, ch.readyState, ch.bufferedAmount) for cid, ch in s._data_channels.items())))
    out.append([(dg.src, len(dg.data), describe_datagram(dg.data).split("(")[0]) for dg in world.wire])
    return out


class Oracle:
    def __init__(self):
        self.inner = C.SctpOracle(safety=True, liveness=True, do_probe=True, probe_n=3)

    def point(self, pw):
        out = pw.compare()
        if not out:
            pw.w2.activate()
            out = [("shifted:" + c, d) for c, d in self.inner.point(pw.w2)]
            pw.w1.activate()
            C.check_tasks(pw.w1)
        return out

    def terminal(self, pw):
        out = pw.compare()
        if out:
            return out
        pw.w1.activate()
        t1 = self.inner.terminal(pw.w1)
        pw.w2.activate()
        t2 = self.inner.terminal(pw.w2)
        if [c for c, _ in t1] != [c for c, _ in t2]:
            return [("origin/terminal-verdict-differs", "base %r vs shifted %r" % (t1[:1], t2[:1]))]
        if t2:
            return [("shifted:" + c, d) for c, d in t2]
        return pw.compare()


def scenario(name):
    d, v = name.split("/")
    spec = BASE[d]
    spec2 = shifted(spec, VARIANTS[v])

    def factory():
        w1 = SctpWorld(spec)
        w2 = SctpWorld(spec2)
        return PairWorld(w1, w2, shape)
    return factory, Oracle(), C.default_signature


QUICK = [("D5s/v1", 2), ("D2/v2", 2), ("D4/v1", 2), ("D4/v3", 2), ("P1/v2", 2), ("P3/v1", 1), ("X1/v1", 2), ("X1/v2", 1),
         ("D1/v3", 1), ("D6/v2", 1)]
THOROUGH = [(d + "/" + v, 3 if d in ("D4", "D5s", "X1") else 2) for d in BASE for v in VARIANTS]


# ----------------------------------------------------------------------------- arithmetic
def _arith16_chunk(args):
    lo, hi, offsets = args
    gt, gte, add = U.uint16_gt, U.uint16_gte, U.uint16_add
    bad = []
    n = 0
    for a in range(lo, hi):
        for d in offsets:
            b = (a + d) & 0xFFFF
            n += 1
            g1, g2 = gt(a, b), gt(b, a)
            dist = (b - a) & 0xFFFF
            if dist == 0:
                ok = (not g1) and (not g2) and gte(a, b) and gte(b, a)
            elif dist < 0x8000:
                ok = g2 and not g1 and gte(b, a) and not gte(a, b) and add(a, dist) == b and gt(add(a, dist), a)
            elif dist > 0x8000:
                ok = g1 and not g2 and gte(a, b) and not gte(b, a)
            else:
                ok = not (g1 and g2)     # exactly half the space apart: only antisymmetry is required
            if not ok:
                bad.append((a, b))
                if len(bad) > 5:
                    return n, bad
    return n, bad


def arith16(tier):
    if tier == "thorough":
        offsets = range(0, 65536)
        step = 256
    else:
        offsets = sorted(set(list(range(0, 160)) + list(range(0x8000 - 160, 0x8000 + 160))
                             + list(range(65536 - 160, 65536))))
        step = 4096
    tasks = [(lo, min(lo + step, 65536), offsets) for lo in range(0, 65536, step)]
    n = 0
    bad = []
    with mp.get_context("fork").Pool(min(16, os.cpu_count() or 1)) as pool:
        for k, b in pool.imap_unordered(_arith16_chunk, tasks):
            n += k
            bad += b
    return n, bad


def arith32():
    pts = sorted(set(
        [x % M32 for c in (0, 2 ** 31, 2 ** 32, 2 ** 16, 2 ** 24) for x in range(c - 40, c + 41)]
        + [12345678, 0xDEADBEEF]))
    n = 0
    bad = []
    for a in pts:
        for b in pts:
            n += 1
            g1, g2 = U.uint32_gt(a, b), U.uint32_gt(b, a)
            dist = (b - a) % M32
            if dist == 0:
                ok = not g1 and not g2 and U.uint32_gte(a, b)
            elif dist < 2 ** 31:
                ok = g2 and not g1 and U.uint32_gte(b, a) and U.uint32_add(a, dist) == b
            elif dist > 2 ** 31:
                ok = g1 and not g2 and U.uint32_gte(a, b)
            else:
                ok = not (g1 and g2)
            ok = ok and S.tsn_plus_one(S.tsn_minus_one(a)) == a and S.tsn_minus_one(S.tsn_plus_one(a)) == a \
                and U.uint32_gt(S.tsn_plus_one(a), a)
            if not ok:
                bad.append((a, b))
    return n, bad


# ----------------------------------------------------------------------------- RTP side: lanes differing only in origins
RTP_ORIGINS = [(1000, 90000), (65530, 2 ** 32 - 4000), (65535, 2 ** 32 - 1), (32760, 2 ** 31 - 2000)]


def jitter_lane_tasks(tier):
    from props import c10
    tasks = []
    depth = 4 if tier == "quick" else 5
    for cap in (4, 16, 128):
        for prefetch in (0, 4):
            for video in (False, True):
                for pattern in ([1, 3, 2], [8]):
                    for prefill in ("empty", "cap+3"):
                        if tier == "quick":
                            tasks.append(((cap, prefetch, video), pattern, RTP_ORIGINS, prefill, depth, None))
                        else:
                            for sym in c10.alphabet(cap):
                                tasks.append(((cap, prefetch, video), pattern, RTP_ORIGINS, prefill, depth, [sym]))
    return tasks


NACK_STEPS = [1, 2, 5, 0, -1, -3, 17, 130, 300, -129]


def nack_lanes(task):
    """Every arrival sequence of length <= depth over NACK_STEPS on real NackGenerators that differ only in the origin."""
    import aiortc.rtcrtpreceiver as RX
    from aiortc.rtp import RtpPacket
    from vt.enumcheck import Tally
    import copy
    depth, firsts = task
    T = Tally()
    origins = [o for o, _ in RTP_ORIGINS]
    nodes = 0
    hist = []

    def rec(gens, highest, d):
        nonlocal nodes
        for st in (NACK_STEPS if d > 0 else firsts):
            ext = highest + st
            outs = []
            g2s = []
            hist.append(st)
            nodes += 1
            bad = None
            for g, o in zip(gens, origins):
                g2 = copy.copy(g)
                g2.missing = set(g.missing)
                try:
                    missed = g2.add(RtpPacket(sequence_number=(o + ext) % 65536))
                    outs.append((missed, tuple(sorted((x - o) % 65536 for x in g2.missing)), (g2.max_seq - o) % 65536))
                except Exception as e:
                    outs.append(("raised %s" % type(e).__name__, str(e)))
                g2s.append(g2)
            if any(x != outs[0] for x in outs[1:]):
                k = next(i for i, x in enumerate(outs) if x != outs[0])
                bad = "loss detection from first sequence number %d gives %r, from %d gives %r" % (
                    origins[0], _trim(outs[0]), origins[k], _trim(outs[k]))
            elif len(outs[0]) == 3 and len(outs[0][1]) > 128:
                bad = "%d sequence numbers tracked as missing (history is 128)" % len(outs[0][1])
            if bad:
                T.violation("origin/nack-differs", "origin/nack-differs", "%s [arrival offsets %r]" % (bad, list(hist)),
                            dict(kind="nack-lanes", steps=list(hist)))
            elif d + 1 < depth:
                rec(g2s, max(highest, ext), d + 1)
            hist.pop()

    gens = []
    for o in origins:
        g = RX.NackGenerator()
        g.add(RtpPacket(sequence_number=o % 65536))
        gens.append(g)
    rec(gens, 0, 0)
    T.case(None, nodes)
    T.transitions = nodes * len(origins)
    T.count("nack-lane-nodes", nodes)
    return T


def _trim(x):
    s = repr(x)
    return s if len(s) < 120 else s[:120] + "..."


def stats_lanes(task):
    """Arrival/report histories on real StreamStatistics objects that differ only in first sequence number / timestamp."""
    import copy
    import aiortc.rtcrtpreceiver as RX
    from aiortc.rtp import RtpPacket
    from props import c18
    from vt.enumcheck import Tally
    depth, firsts = task
    T = Tally()
    clock = c18.Clock()
    c18.install_seams(clock)
    names = c18.STAT_NAMES
    hist = []
    nodes = 0
    try:
        def rec(sts, his, now, d):
            nonlocal nodes
            for name in (names if d > 0 else firsts):
                sym = c18.SYM[name]
                hist.append(name)
                nodes += 1
                outs = []
                st2s, hi2s = [], []
                now2 = now
                for st, hi, (s0, t0) in zip(sts, his, RTP_ORIGINS):
                    st2 = copy.copy(st)
                    hi2 = hi
                    try:
                        if sym is None:
                            outs.append(None if st2.max_seq is None else
                                        (st2.fraction_lost, st2.packets_lost, st2.jitter, st2.cycles + st2.max_seq - st2.base_seq))
                        else:
                            dseq, dts, dclk, _ = sym
                            now2 = now + dclk
                            if hi is None:
                                seq, ts = s0, t0
                                hi2 = (seq, ts)
                            else:
                                seq, ts = (hi[0] + dseq) % 65536, (hi[1] + dts) % M32
                                if 0 < dseq < 0x8000:
                                    hi2 = (seq, ts)
                            clock.now = now2
                            st2.add(RtpPacket(sequence_number=seq, timestamp=ts, ssrc=1))
                            outs.append((st2.packets_received, st2.packets_lost, st2.jitter, st2.packets_expected))
                    except Exception as e:
                        outs.append(("raised", type(e).__name__, str(e)))
                    st2s.append(st2)
                    hi2s.append(hi2)
                if any(x != outs[0] for x in outs[1:]):
                    k = next(i for i, x in enumerate(outs) if x != outs[0])
                    T.violation("origin/statistics-differ", "origin/statistics-differ",
                                "receiver statistics from start %r give %r, from start %r give %r [history %r]" % (
                                    RTP_ORIGINS[0], outs[0], RTP_ORIGINS[k], outs[k], list(hist)),
                                dict(kind="stats-lanes", history=list(hist)))
                elif d + 1 < depth:
                    rec(st2s, hi2s, now2, d + 1)
                hist.pop()
        rec([RX.StreamStatistics(c18.CLOCKRATE) for _ in RTP_ORIGINS], [None] * len(RTP_ORIGINS), c18.EPOCH, 0)
    finally:
        c18.remove_seams()
    T.case(None, nodes)
    T.transitions = nodes * len(RTP_ORIGINS)
    T.count("stats-lane-nodes", nodes)
    return T


TS_STEPS = [3000, 0, 90000, 1, 2 ** 31 - 1, -3000]


def tsmap_lanes(task):
    import copy
    import aiortc.rtcrtpreceiver as RX
    from vt.enumcheck import Tally
    depth = task
    T = Tally()
    origins = [t for _, t in RTP_ORIGINS] + [0, 2 ** 32 - 3000]
    nodes = 0
    import itertools
    for L in range(1, depth + 1):
        for steps in itertools.product(TS_STEPS, repeat=L):
            nodes += 1
            outs = []
            for t0 in origins:
                m = RX.TimestampMapper()
                ts = t0
                o = [m.map(ts)]
                for st in steps:
                    ts = (ts + st) % M32
                    o.append(m.map(ts))
                outs.append(o)
            # only forward steps define a wrap-free expectation; compare lanes on sequences without backward steps
            if all(st >= 0 for st in steps) and any(x != outs[0] for x in outs[1:]):
                k = next(i for i, x in enumerate(outs) if x != outs[0])
                T.violation("origin/timestamp-mapping-differs", "origin/timestamp-mapping-differs",
                            "steps %r: from timestamp %d mapped to %r, from %d to %r" % (list(steps), origins[0], outs[0], origins[k], outs[k]),
                            dict(kind="tsmap", steps=list(steps)))
            want = [0]
            for st in steps:
                want.append(want[-1] + st)
            if all(st >= 0 for st in steps) and outs[0] != want:
                T.violation("origin/timestamp-mapping", "origin/timestamp-mapping", "steps %r mapped to %r" % (list(steps), outs[0]),
                            dict(kind="tsmap", steps=list(steps)))
    T.case(None, nodes)
    T.transitions = nodes * len(origins)
    T.count("tsmap-nodes", nodes)
    return T


def run_rtp(tier, seed):
    from vt.enumcheck import pmap, Tally
    total = Tally()
    total.merge(pmap("props.c10", "walk", jitter_lane_tasks(tier), seed=seed))
    nd = 5 if tier == "quick" else 6
    total.merge(pmap("props.c17", "nack_lanes", [(nd, [s]) for s in NACK_STEPS], seed=seed))
    from props import c18
    sd = 4 if tier == "quick" else 5
    total.merge(pmap("props.c17", "stats_lanes", [(sd, [n]) for n in c18.STAT_NAMES], seed=seed))
    total.merge(pmap("props.c17", "tsmap_lanes", [5 if tier == "quick" else 6], seed=seed))
    return total


def run(tier, seed):
    sb = QUICK if tier == "quick" else THOROUGH
    res = run_sched(
        "props.c17", PID, sb, seed,
        rule="each explored schedule (<= k deviations) is applied simultaneously to two real associations that differ "
             "only in origins (initial TSNs 2^32-1/-3/-8 on either side, hence RE-CONFIG sequence numbers; stream "
             "sequence counters preset to 65533..65535 on both ends): enabled-event menus, observation logs without raw "
             "sequence numbers, queue/flight/reassembly shapes and terminal verdicts must be identical; plus exhaustive "
             "serial-number arithmetic (16-bit: all a x all/boundary offsets; 32-bit: boundary product); RTP side: the real "
             "JitterBuffer (C10 arrival tree), NackGenerator, StreamStatistics and TimestampMapper are driven in lockstep lanes that "
             "differ only in first sequence number / timestamp origin (1000/90000, 65530/2^32-4000, 65535/2^32-1, 32760/2^31-2000) "
             "over complete arrival trees; every output must be identical across lanes",
        assumptions=["deviation bound k", "DTLS stand-in", "send never suspends"])
    rtp = run_rtp(tier, seed)
    cov = res["coverage"]
    cov["rtp_lane_nodes"] = rtp.evaluations
    cov["rtp_lane_comparisons"] = rtp.transitions
    cov["rtp_counters"] = dict(rtp.counters)
    cov["transitions"] += rtp.transitions
    cov["states"] += rtp.distinct
    for sig, v in sorted(rtp.violations.items()):
        res["violations"].append(dict(signature="C17|rtp|%s" % sig, clause=v["clause"], detail=v["detail"], count=v["count"],
                                      replay=v["replay"]))
    n16, bad16 = arith16(tier)
    n32, bad32 = arith32()
    cov["arith16_pairs"] = n16
    cov["arith32_pairs"] = n32
    cov["transitions"] += n16 + n32
    for nm, bad in (("arith16", bad16), ("arith32", bad32)):
        if bad:
            res["violations"].append(dict(signature="C17|%s" % nm, clause="serial-arithmetic/" + nm,
                                          detail="pairs violating antisymmetry/consistency: %r" % bad[:5],
                                          count=len(bad), replay=dict(kind=nm, pairs=bad[:20])))
    return res


def replay(rep):
    r = rep["replay"]
    if r.get("kind") == "jitter":
        from props import c10
        return c10.replay(rep)
    if r.get("kind") in ("nack-lanes", "stats-lanes", "tsmap"):
        print("lane counterexample:", r)
        return 1
    if r.get("kind") in ("arith16", "arith32"):
        for a, b in r["pairs"]:
            f = U.uint16_gt if r["kind"] == "arith16" else U.uint32_gt
            print("gt(%d,%d)=%s gt(%d,%d)=%s" % (a, b, f(a, b), b, a, f(b, a)))
        return 1
    return replay_sched(rep)
