"""C17 - behaviour does not depend on sequence-number origins (differential E-sched + exhaustive
serial-number arithmetic)."""
import multiprocessing as mp
import os

from props import sctp_common as C
from props import c02, c06
from vt.pairworld import PairWorld
from vt.sctpworld import SctpWorld, describe_datagram
from vt.sched_check import run_sched, replay_sched
import aiortc.rtcsctptransport as S
from aiortc import utils as U

PID = "C17"
M32 = 2 ** 32

# drivers: negotiated-channel ones take stream-sequence presets too
BASE = {}
for _n in ("D1", "D2", "D4", "D5", "D6"):
    BASE[_n] = C.drivers()[_n]
BASE["D5s"] = c02.DRIVERS["D5s"]
BASE["P1"] = c06.DRIVERS["P1"]
BASE["P3"] = c06.DRIVERS["P3"]
# a driver that closes channels so that RE-CONFIG request/response sequence numbers are used
BASE["X1"] = dict(
    setup="settled",
    channels=[C.chan("a", negotiated=0), C.chan("b", negotiated=1)],
    script=[[("send", "A", "a", C.pay("a", 0, 100)), ("close", "A", "a")],
            [("send", "B", "b", C.pay("b", 0, 100)), ("close", "B", "b")]],
)

VARIANTS = {
    "v1": dict(tsn={"A": M32 - 1, "B": M32 - 3}, sseq=65534),
    "v2": dict(tsn={"A": M32 - 3, "B": M32 - 8}, sseq=65535),
    "v3": dict(tsn={"A": M32 - 8, "B": M32 - 1}, sseq=65533),
}


def shifted(spec, var):
    s = dict(spec)
    s["tsn"] = var["tsn"]
    s["sseq"] = {c["label"]: var["sseq"] for c in spec["channels"] if c.get("negotiated") is not None}
    return s


def shape(world):
    out = []
    for side in "AB":
        s = world.sctp[side]
        out.append((s.state, len(s._sent_queue), len(s._outbound_queue), len(s._data_channel_queue),
                    s._flight_size, s._cwnd, len(s._sack_misordered),
                    sorted((sid, len(st.reassembly)) for sid, st in s._inbound_streams.items() if st.reassembly),
                    sorted((cid, ch.readyState, ch.bufferedAmount) for cid, ch in s._data_channels.items())))
    out.append([(dg.src, len(dg.data), describe_datagram(dg.data).split("(")[0]) for dg in world.wire])
    return out


class Oracle:
    def __init__(self):
        self.inner = C.SctpOracle(safety=True, liveness=True, do_probe=True, probe_n=3)

    def point(self, pw):
        out = pw.compare()
        if not out:
            pw.w2.activate()
            out = [("shifted:" + c, d) for c, d in self.inner.point(pw.w2)]
            pw.w1.activate()
            C.check_tasks(pw.w1)
        return out

    def terminal(self, pw):
        out = pw.compare()
        if out:
            return out
        pw.w1.activate()
        t1 = self.inner.terminal(pw.w1)
        pw.w2.activate()
        t2 = self.inner.terminal(pw.w2)
        if [c for c, _ in t1] != [c for c, _ in t2]:
            return [("origin/terminal-verdict-differs", "base %r vs shifted %r" % (t1[:1], t2[:1]))]
        if t2:
            return [("shifted:" + c, d) for c, d in t2]
        return pw.compare()


def scenario(name):
    d, v = name.split("/")
    spec = BASE[d]
    spec2 = shifted(spec, VARIANTS[v])

    def factory():
        w1 = SctpWorld(spec)
        w2 = SctpWorld(spec2)
        return PairWorld(w1, w2, shape)
    return factory, Oracle(), C.default_signature


QUICK = [("D5s/v1", 2), ("D2/v2", 2), ("D4/v1", 2), ("D4/v3", 2), ("P1/v2", 2), ("P3/v1", 1), ("X1/v1", 2), ("X1/v2", 1),
         ("D1/v3", 1), ("D6/v2", 1)]
THOROUGH = [(d + "/" + v, 3 if d in ("D4", "D5s", "X1") else 2) for d in BASE for v in VARIANTS]


# ----------------------------------------------------------------------------- arithmetic
def _arith16_chunk(args):
    lo, hi, offsets = args
    gt, gte, add = U.uint16_gt, U.uint16_gte, U.uint16_add
    bad = []
    n = 0
    for a in range(lo, hi):
        for d in offsets:
            b = (a + d) & 0xFFFF
            n += 1
            g1, g2 = gt(a, b), gt(b, a)
            dist = (b - a) & 0xFFFF
            if dist == 0:
                ok = (not g1) and (not g2) and gte(a, b) and gte(b, a)
            elif dist < 0x8000:
                ok = g2 and not g1 and gte(b, a) and not gte(a, b) and add(a, dist) == b and gt(add(a, dist), a)
            elif dist > 0x8000:
                ok = g1 and not g2 and gte(a, b) and not gte(b, a)
            else:
                ok = not (g1 and g2)     # exactly half the space apart: only antisymmetry is required
            if not ok:
                bad.append((a, b))
                if len(bad) > 5:
                    return n, bad
    return n, bad


def arith16(tier):
    if tier == "thorough":
        offsets = range(0, 65536)
        step = 256
    else:
        offsets = sorted(set(list(range(0, 160)) + list(range(0x8000 - 160, 0x8000 + 160))
                             + list(range(65536 - 160, 65536))))
        step = 4096
    tasks = [(lo, min(lo + step, 65536), offsets) for lo in range(0, 65536, step)]
    n = 0
    bad = []
    with mp.get_context("fork").Pool(min(16, os.cpu_count() or 1)) as pool:
        for k, b in pool.imap_unordered(_arith16_chunk, tasks):
            n += k
            bad += b
    return n, bad


def arith32():
    pts = sorted(set(
        [x % M32 for c in (0, 2 ** 31, 2 ** 32, 2 ** 16, 2 ** 24) for x in range(c - 40, c + 41)]
        + [12345678, 0xDEADBEEF]))
    n = 0
    bad = []
    for a in pts:
        for b in pts:
            n += 1
            g1, g2 = U.uint32_gt(a, b), U.uint32_gt(b, a)
            dist = (b - a) % M32
            if dist == 0:
                ok = not g1 and not g2 and U.uint32_gte(a, b)
            elif dist < 2 ** 31:
                ok = g2 and not g1 and U.uint32_gte(b, a) and U.uint32_add(a, dist) == b
            elif dist > 2 ** 31:
                ok = g1 and not g2 and U.uint32_gte(a, b)
            else:
                ok = not (g1 and g2)
            ok = ok and S.tsn_plus_one(S.tsn_minus_one(a)) == a and S.tsn_minus_one(S.tsn_plus_one(a)) == a \
                and U.uint32_gt(S.tsn_plus_one(a), a)
            if not ok:
                bad.append((a, b))
    return n, bad


def run(tier, seed):
    sb = QUICK if tier == "quick" else THOROUGH
    res = run_sched(
        "props.c17", PID, sb, seed,
        rule="each explored schedule (<= k deviations) is applied simultaneously to two real associations that differ "
             "only in origins (initial TSNs 2^32-1/-3/-8 on either side, hence RE-CONFIG sequence numbers; stream "
             "sequence counters preset to 65533..65535 on both ends): enabled-event menus, observation logs without raw "
             "sequence numbers, queue/flight/reassembly shapes and terminal verdicts must be identical; plus exhaustive "
             "serial-number arithmetic (16-bit: all a x all/boundary offsets; 32-bit: boundary product)",
        assumptions=["deviation bound k", "DTLS stand-in", "send never suspends"])
    n16, bad16 = arith16(tier)
    n32, bad32 = arith32()
    cov = res["coverage"]
    cov["arith16_pairs"] = n16
    cov["arith32_pairs"] = n32
    cov["transitions"] += n16 + n32
    for nm, bad in (("arith16", bad16), ("arith32", bad32)):
        if bad:
            res["violations"].append(dict(signature="C17|%s" % nm, clause="serial-arithmetic/" + nm,
                                          detail="pairs violating antisymmetry/consistency: %r" % bad[:5],
                                          count=len(bad), replay=dict(kind=nm, pairs=bad[:20])))
    return res


def replay(rep):
    r = rep["replay"]
    if r.get("kind") in ("arith16", "arith32"):
        for a, b in r["pairs"]:
            f = U.uint16_gt if r["kind"] == "arith16" else U.uint32_gt
            print("gt(%d,%d)=%s gt(%d,%d)=%s" % (a, b, f(a, b), b, a, f(b, a)))
        return 1
    return replay_sched(rep)
