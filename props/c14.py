"""C14 - signalling follows the JSEP state machine; illegal calls have no side effects.

E-bfs over call histories with a reference model: the complete tree of enabled operations up to depth D
(both peers, 10 operations each) is enumerated on the model; every maximal history is replayed on a
fresh pair of real RTCPeerConnections (virtual loop, fake ICE) and after EVERY call the outcome class,
signalingState, signalingstatechange events and - on failure - the unchanged state and descriptions are
compared with the model.
"""
import re

import asyncio

from aiortc import RTCSessionDescription
from aiortc.exceptions import InvalidStateError
from vt.enumcheck import Tally, pmap, result
from vt.pcworld import PcWorld, PendingTrack

PID = "C14"
OPS = ["createOffer", "createAnswer", "setLocalOffer", "setLocalAnswer", "setLocalImplicit",
       "setRemoteOffer", "setRemoteAnswer", "setRemoteMismatch", "setRemoteDefective", "close"]
DEFECTS = ["no-ice-ufrag", "no-rtcp-mux", "actpass-answer", "drop-section", "change-kind"]
OK, ISE, VE = "ok", "InvalidStateError", "ValueError"


# ----------------------------------------------------------------------------- reference model (JSEP table)
class PeerModel:
    def __init__(self):
        self.state = "stable"
        self.epoch = 0              # bumped by every successful description change
        self.offer = None           # (epoch at creation) of the last created offer
        self.answer = None          # (epoch at creation, id of the remote offer it answers)
        self.pending_local = None   # id of own pending offer
        self.pending_remote = None  # id of the remote offer pending here
        self.local_desc = False
        self.remote_desc = False


class Model:
    def __init__(self):
        self.p = {"A": PeerModel(), "B": PeerModel()}
        self.n = 0                  # artefact ids

    def clone(self):
        import copy
        return copy.deepcopy(self)

    def enabled(self, who, op, variant=None):
        me, other = self.p[who], self.p["B" if who == "A" else "A"]
        if op in ("createOffer", "createAnswer", "setLocalImplicit", "close", "closeBegin"):
            return True
        if op == "setLocalOffer":
            return me.offer is not None
        if op == "setLocalAnswer":
            return me.answer is not None
        if op == "setRemoteOffer":
            return other.offer is not None
        if op in ("setRemoteAnswer", "setRemoteMismatch"):
            return other.answer is not None
        if op == "setRemoteDefective":
            return other.offer is not None or other.answer is not None
        return False

    def apply(self, who, op):
        """Returns (set of allowed outcome classes, expected state after success or None if the state is left open)."""
        me, other = self.p[who], self.p["B" if who == "A" else "A"]
        s = me.state
        if op in ("close", "closeBegin"):
            me.state = "closed"
            return {OK}, "closed"
        if op == "addMedia":
            return {OK}, None           # adding a transceiver has no signalling effect by itself
        if s == "closed":
            return {ISE}, None
        if op == "createOffer":
            if s == "have-remote-offer":
                # creating (not applying) an offer while a remote offer is pending is left unconstrained on purpose
                self.n += 1
                me.offer = ("maybe", me.epoch, self.n)
                return {OK, ISE}, None
            self.n += 1
            me.offer = ("yes", me.epoch, self.n)
            return {OK}, None
        if op == "createAnswer":
            if s != "have-remote-offer":
                return {ISE}, None
            me.answer = (me.epoch, me.pending_remote)
            return {OK}, None
        if op == "setLocalImplicit":
            if s == "have-remote-offer":
                me.state = "stable"
                me.epoch += 1
                me.answer = (me.epoch, me.pending_remote)      # an answer was created implicitly and applied
                me.pending_remote = None
                return {OK}, "stable"
            self.n += 1
            me.offer = ("yes", me.epoch + 1, self.n)
            me.state = "have-local-offer"
            me.epoch += 1
            me.pending_local = self.n
            return {OK}, "have-local-offer"
        if op == "setLocalOffer":
            if s not in ("stable", "have-local-offer"):
                return {ISE}, None
            fresh = me.offer[0] == "yes" and me.offer[1] == me.epoch
            if fresh:
                me.state = "have-local-offer"
                me.epoch += 1
                me.pending_local = me.offer[2]
                me.offer = ("yes", me.epoch, me.offer[2])
                return {OK}, "have-local-offer"
            return {OK, VE, "stale"}, None
        if op == "setLocalAnswer":
            if s != "have-remote-offer":
                return {ISE}, None
            fresh = me.answer[0] == me.epoch and me.answer[1] == me.pending_remote
            if fresh:
                me.state = "stable"
                me.epoch += 1
                me.pending_remote = None
                return {OK}, "stable"
            return {OK, VE, "stale"}, None
        if op == "setRemoteOffer":
            if s not in ("stable", "have-remote-offer"):
                return {ISE}, None
            current = other.offer[0] == "yes" and other.pending_local == other.offer[2] and other.state == "have-local-offer"
            if current and s == "stable":
                me.state = "have-remote-offer"
                me.epoch += 1
                me.pending_remote = other.offer[2]
                return {OK}, "have-remote-offer"
            return {OK, VE, "stale"}, None
        if op == "setRemoteAnswer":
            if s != "have-local-offer":
                return {ISE}, None
            matches = other.answer[1] is not None and other.answer[1] == me.pending_local
            if matches:
                me.state = "stable"
                me.epoch += 1
                me.pending_local = None
                return {OK}, "stable"
            return {OK, VE, "stale"}, None
        if op == "setRemoteMismatch":
            return ({VE} if s == "have-local-offer" else {ISE}), None
        if op == "setRemoteDefective":
            # which artefact is damaged is decided by the driver: an offer if the other peer has one, else its answer
            if other.offer is not None:
                return ({VE} if s in ("stable", "have-remote-offer") else {ISE}), None
            return ({VE} if s == "have-local-offer" else {ISE}), None
        raise KeyError(op)


# ----------------------------------------------------------------------------- damaging descriptions
def damage(desc, how):
    sdp = desc.sdp
    if how == "no-ice-ufrag":
        sdp = re.sub(r"a=ice-ufrag:[^\r\n]*\r\n", "", sdp)
    elif how == "no-rtcp-mux":
        sdp = sdp.replace("a=rtcp-mux\r\n", "")
    elif how == "actpass-answer":
        sdp = re.sub(r"a=setup:(active|passive)", "a=setup:actpass", sdp)
    elif how == "drop-section":
        i = sdp.rfind("m=")
        j = sdp.find("m=")
        if i != j:
            sdp = sdp[:i]
        else:
            sdp = sdp.replace("m=audio", "m=video", 1)
    elif how == "change-kind":
        sdp = sdp.replace("m=audio", "m=video", 1)
    return RTCSessionDescription(sdp=sdp, type=desc.type)


def snapshot(pc):
    ld, rd = pc.localDescription, pc.remoteDescription
    return (pc.signalingState, None if ld is None else (ld.type, ld.sdp), None if rd is None else (rd.type, rd.sdp))


# ----------------------------------------------------------------------------- running one history on real objects
def run_history(hist):
    """hist: list of (who, op, variant). Returns None or (clause, detail, index)."""
    w = PcWorld()
    try:
        pcs = {"A": w.pc(), "B": w.pc()}
        pcs["A"].addTrack(PendingTrack("audio"))
        pcs["A"].createDataChannel("chat")
        pcs["B"].addTrack(PendingTrack("audio"))
        events = {"A": [], "B": []}
        for k in "AB":
            pcs[k].on("signalingstatechange", lambda k=k: events[k].append(pcs[k].signalingState))
        art = {"A": {}, "B": {}}
        model = Model()
        in_progress = []
        for i, (who, op, variant) in enumerate(hist):
            pc = pcs[who]
            other = "B" if who == "A" else "A"
            # an artefact that the (unconstrained) createOffer-while-remote-offer-pending did not produce: history ends here
            need = {"setLocalOffer": (who, "offer"), "setLocalAnswer": (who, "answer"), "setRemoteOffer": (other, "offer"),
                    "setRemoteAnswer": (other, "answer"), "setRemoteMismatch": (other, "answer")}.get(op)
            if need and art[need[0]].get(need[1]) is None:
                return None
            if op == "setRemoteDefective" and not (art[other].get("offer") or art[other].get("answer")):
                return None
            before = snapshot(pc)
            nev = len(events[who])
            allowed, expect_state = model.apply(who, op)
            outcome = OK
            err = None
            try:
                if op == "createOffer":
                    art[who]["offer"] = w.run(pc.createOffer())
                elif op == "createAnswer":
                    art[who]["answer"] = w.run(pc.createAnswer())
                elif op == "setLocalOffer":
                    w.run(pc.setLocalDescription(art[who]["offer"]))
                elif op == "setLocalAnswer":
                    w.run(pc.setLocalDescription(art[who]["answer"]))
                elif op == "setLocalImplicit":
                    w.run(pc.setLocalDescription())
                    if pc.localDescription is not None:
                        art[who][pc.localDescription.type] = pc.localDescription
                elif op == "setRemoteOffer":
                    w.run(pc.setRemoteDescription(art[other]["offer"]))
                elif op == "setRemoteAnswer":
                    w.run(pc.setRemoteDescription(art[other]["answer"]))
                elif op == "setRemoteMismatch":
                    w.run(pc.setRemoteDescription(damage(art[other]["answer"], variant)))
                elif op == "setRemoteDefective":
                    base = art[other].get("offer") or art[other]["answer"]
                    w.run(pc.setRemoteDescription(damage(base, variant)))
                elif op == "close":
                    w.run(pc.close())
                elif op == "closeBegin":
                    # close() is started and left in progress (suspended wherever it first has to wait): the calls that
                    # follow in the history are made by "another task" while it is still running
                    t = w.loop.create_task(pc.close())
                    for _ in range(1000):
                        if t.done() or pc.signalingState == "closed":
                            break
                        w.loop.step()
                    in_progress.append(t)
                elif op == "addMedia":
                    pc.addTransceiver("video", direction="sendrecv")
            except InvalidStateError as e:
                outcome, err = ISE, e
            except ValueError as e:
                outcome, err = VE, e
            except Exception as e:
                return ("call/unexpected-exception", "%s.%s raised %s: %s" % (who, op, type(e).__name__, e), i)
            # artefacts that the model believes exist must exist (the model decides enabledness)
            after = snapshot(pc)
            if outcome not in allowed:
                return ("call/outcome", "%s.%s in state %s: %s%s, the JSEP table says %s" % (
                    who, op, before[0], outcome, (" (%s)" % err) if err else "", "/".join(sorted(a for a in allowed if a != "stale"))), i)
            if outcome != OK:
                if after != before:
                    what = [n for n, x, y in zip(("signalingState", "localDescription", "remoteDescription"), before, after) if x != y]
                    return ("call/failed-call-has-side-effects", "%s.%s raised %s but changed %s (state %s -> %s)" % (
                        who, op, outcome, ",".join(what), before[0], after[0]), i)
                if len(events[who]) != nev:
                    return ("call/failed-call-emits-event", "%s.%s raised %s and emitted signalingstatechange" % (who, op, outcome), i)
                if "stale" in allowed or (OK in allowed and len(allowed) > 1):
                    pass
            else:
                if expect_state is not None and after[0] != expect_state:
                    return ("state/after-call", "%s.%s from %s: signalingState is %s, the JSEP table says %s" % (
                        who, op, before[0], after[0], expect_state), i)
                if expect_state is None and "stale" in allowed:
                    # an artefact from an earlier round was accepted: follow the implementation's state in the model
                    model.p[who].state = after[0] if after[0] in ("stable", "have-local-offer", "have-remote-offer") else model.p[who].state
                    model.p[who].epoch += 1
                    if after[0] == "have-remote-offer":
                        model.p[who].pending_remote = -1
                    if after[0] == "have-local-offer":
                        model.p[who].pending_local = -1
                changed = after[0] != before[0]
                # (the implementation also emits signalingstatechange when a description is re-applied without a state
                # change; the property does not speak about events of successful calls, so only a MISSING event is reported)
                if changed and len(events[who]) == nev:
                    return ("state/event-missing", "%s.%s: state %s -> %s without a signalingstatechange event" % (
                        who, op, before[0], after[0]), i)
            if model.p[who].state == "closed" and after[0] != "closed":
                return ("state/closed-not-absorbing", "%s.%s: signalingState %s after close" % (who, op, after[0]), i)
        for t in in_progress:
            if not t.done():
                STATS["close-still-in-progress-during-next-call"] = STATS.get("close-still-in-progress-during-next-call", 0) + 1
            w.run(asyncio.wait_for(t, 60))
            if t.exception() is not None:
                return ("call/unexpected-exception", "the close() left in progress raised %r" % t.exception(), len(hist) - 1)
        for k in "AB":
            if model.p[k].state == "closed" and pcs[k].signalingState != "closed":
                return ("state/closed-not-absorbing", "%s: signalingState %s once close() has completed" % (k, pcs[k].signalingState), len(hist) - 1)
        return None
    finally:
        w.close()


STATS = {}


# ----------------------------------------------------------------------------- enumerating the tree on the model
def symbols():
    out = []
    for who in "AB":
        for op in OPS:
            if op == "setRemoteMismatch":
                out += [(who, op, v) for v in ("drop-section", "change-kind")]
            elif op == "setRemoteDefective":
                out += [(who, op, v) for v in ("no-ice-ufrag", "no-rtcp-mux", "actpass-answer")]
            else:
                out.append((who, op, None))
    return out


# non-initial start states: the tree is also walked from the state after a complete negotiation round followed by a
# change of the media list (a transceiver added), with either side having made the first offer
PREFIXES = {
    "initial": [],
    "round1-A-then-addMedia": [("A", "setLocalImplicit", None), ("B", "setRemoteOffer", None), ("B", "setLocalImplicit", None),
                               ("A", "setRemoteAnswer", None), ("A", "addMedia", None)],
    "round1-B-then-addMedia": [("B", "setLocalImplicit", None), ("A", "setRemoteOffer", None), ("A", "setLocalImplicit", None),
                               ("B", "setRemoteAnswer", None), ("A", "addMedia", None)],
}


def histories(depth, firsts=None, prefix=()):
    """All maximal histories (length == depth) of enabled operations (optionally: only those starting with the symbols
    whose indices are given in `firsts`, one index per leading position)."""
    syms = symbols()
    out = []

    def rec(model, hist):
        if len(hist) == depth:
            out.append(list(hist))
            return
        for k, sym in enumerate(syms):
            if firsts is not None and len(hist) < len(firsts) and firsts[len(hist)] != k:
                continue
            who, op, variant = sym
            if not model.enabled(who, op, variant):
                continue
            if op == "setRemoteDefective" and variant == "actpass-answer":
                other = model.p["B" if who == "A" else "A"]
                if other.offer is not None:
                    continue          # actpass is legal in an offer: only an answer can be damaged this way
            m2 = model.clone()
            allowed, _ = m2.apply(who, op)
            if op == "createOffer" and OK not in allowed:
                m2.p[who].offer = m2.p[who].offer
            hist.append(sym)
            rec(m2, hist)
            hist.pop()
    m0 = Model()
    for who, op, variant in prefix:
        m0.apply(who, op)
    rec(m0, [])
    return [list(prefix) + h for h in out]


def window_histories(depth, firsts, prefix):
    """close() in progress: every history of `depth` enabled calls, then close() STARTED on either peer, then every enabled
    call on that same peer (made while the close is still running)."""
    out = []
    for h in histories(depth, firsts, prefix):
        m = Model()
        for who, op, variant in h:
            m.apply(who, op)
        for who in "AB":
            if m.p[who].state == "closed":
                continue
            for sym in symbols():
                if sym[0] == who and m.enabled(*sym):
                    out.append(h + [(who, "closeBegin", None), sym])
    return out


def tree_task(task):
    depth, firsts, pname = task
    T = Tally()
    STATS.clear()
    if pname.endswith("+window"):
        hs = window_histories(depth, firsts, PREFIXES[pname[:-7]])
    else:
        hs = histories(depth, firsts, PREFIXES[pname])
    n = 0
    shard = firsts[0] + firsts[1] if firsts else 0
    for i, h in enumerate(hs):
        n += 1
        v = run_history(h)
        if v:
            clause, detail, idx = v
            T.violation(clause + "/" + h[idx][1], clause, "%s [history %s, failing call #%d]" % (
                detail, " ".join("%s.%s%s" % (w_, o, ("(" + v_ + ")") if v_ else "") for w_, o, v_ in h[:idx + 1]), idx),
                dict(kind="history", history=[list(x) for x in h[:idx + 1]]))
    T.case(None, n)
    T.transitions = n * depth
    T.count("histories", n)
    for k, v in STATS.items():
        T.count(k, v)
    if shard == 0 and hs:
        T.sample(dict(kind="history", start=pname, depth=depth, example=[list(x) for x in hs[len(hs) // 2]]), limit=3)
    return T


def run(tier, seed):
    depth = 5 if tier == "quick" else 6
    nsym = len(symbols())
    tasks = [(depth, (i, j), "initial") for i in range(nsym) for j in range(nsym)]
    for pname in PREFIXES:
        if pname != "initial":
            tasks += [(depth - 2, (i, j), pname) for i in range(nsym) for j in range(nsym)]
    # close() in progress: depth-3 (thorough: 4) histories from every start state, then close() started, then one more call
    for pname in PREFIXES:
        tasks += [(depth - 2 if pname == "initial" else depth - 3, (i, j), pname + "+window") for i in range(nsym) for j in range(nsym)]
    total = pmap("props.c14", "tree_task", tasks, seed=seed)
    return result(
        PID, total,
        rule="complete trees of call histories of length %d (from the initial state) and length %d-2 from two non-initial start states "
             "(a completed negotiation round started by either peer, followed by addTransceiver) over both peers x {createOffer, createAnswer, setLocal(last own offer), "
             "setLocal(last own answer), setLocal() implicit, setRemote(peer's last offer), setRemote(peer's last answer), "
             "setRemote(answer with an m-section dropped / kind changed), setRemote(description without ice-ufrag / without rtcp-mux / "
             "answer with setup:actpass), close}; an operation is enabled when its argument exists; each maximal history is replayed "
             "on a fresh pair of real RTCPeerConnections (A: audio track + data channel, B: audio track) and after EVERY call the "
             "outcome class (ok / InvalidStateError / ValueError), signalingState, signalingstatechange events and - after a "
             "failure - unchanged signalingState / localDescription / remoteDescription are compared with a JSEP reference table. "
             "Plus, from every start state, every history of length %d-2 / %d-3 followed by close() STARTED on either peer (run to its "
             "first wait, left in progress) and then every enabled call on that peer: it must behave as after a completed close. "
             "states = histories (no merging: hidden implementation state is not in an abstract key)" % (depth, depth, depth, depth),
        assumptions=["fake ICE (aioice Connection replaced); createOffer while a remote offer is pending is left unconstrained",
                     "artefacts from an earlier negotiation round (stale) may be accepted or rejected with ValueError"],
        states=total.evaluations)


def replay(rep):
    h = [tuple(x) for x in rep["replay"]["history"]]
    for i in range(1, len(h) + 1):
        pass
    v = run_history(h)
    for who, op, variant in h:
        print("%s.%s%s" % (who, op, ("(" + variant + ")") if variant else ""))
    if v:
        print("FAILS clause=%s: %s (call #%d)" % v)
        return 1
    print("no violation")
    return 0
