"""C10 - jitter buffer releases only whole, correctly ordered frames and stays bounded.

E-bfs as a complete depth-bounded tree: every sequence of up to D arrivals over a 14-symbol alphabet
(offsets relative to the highest sequence number seen) is applied to the real `JitterBuffer`, from three
start states, for every configuration; the oracle is evaluated after every `add`.  All comparisons are
made on harness-side *extended* packet indices (the 16-bit sequence number is index mod 2^16).

The walker is lane-based: several (sequence origin, timestamp origin) lanes are driven in lockstep with
the same arrival sequence; C10 uses one lane per run, C17 compares lanes (origin independence).
"""
import itertools

from aiortc.jitterbuffer import JitterBuffer
from aiortc.rtp import RtpPacket
from vt.enumcheck import Tally, pmap, result

PID = "C10"
M16 = 1 << 16
M32 = 1 << 32
BASE_EXT = 400          # extended index of the first packet (room for the -101 symbol below it)
TS_STEP = 3000


def alphabet(cap):
    return [1, 2, 3, 0, -1, -2, -3, cap - 1, cap, cap + 1, -99, -100, -101, 32767]


class Stream:
    """Maps extended indices to (frame index, timestamp)."""

    def __init__(self, pattern):
        self.pattern = list(pattern)
        self.period = sum(pattern)
        self.idx = []
        for i, n in enumerate(pattern):
            self.idx += [i] * n

    def frame_of(self, ext):
        return (ext // self.period) * len(self.pattern) + self.idx[ext % self.period]


def mkpacket(ext, seq0, ts0, stream):
    p = RtpPacket(payload_type=96, sequence_number=(seq0 + ext) % M16,
                  timestamp=(ts0 + TS_STEP * stream.frame_of(ext)) % M32)
    p._data = ext.to_bytes(4, "big")
    p._ext = ext
    return p


def clone(jb):
    new = JitterBuffer.__new__(JitterBuffer)
    d = dict(vars(jb))
    for k, v in d.items():
        if isinstance(v, list):
            d[k] = list(v)
    new.__dict__ = d
    return new


class Lane:
    __slots__ = ("jb", "seq0", "ts0")

    def __init__(self, jb, seq0, ts0):
        self.jb = jb
        self.seq0 = seq0
        self.ts0 = ts0


class Node:
    """Harness-side knowledge at one point of the arrival history (immutable style)."""
    __slots__ = ("highest", "received", "released", "last_first", "late_seen", "lanes")

    def __init__(self, highest, received, released, last_first, late_seen, lanes):
        self.highest = highest
        self.received = received
        self.released = released        # frozenset of tags already released
        self.last_first = last_first    # first tag of the last released frame
        self.late_seen = late_seen
        self.lanes = lanes


def held_tags(jb):
    return {p._ext for p in jb._packets if p is not None}


def step(node, delta, cfg, stream, V, hist):
    """Apply one arrival to every lane. Returns the child node (or None when a violation stops the branch).
    V(clause, detail) records a violation."""
    cap, prefetch, video = cfg
    ext = node.highest + delta
    late = (node.highest - ext) >= 100
    outs = []
    new_lanes = []
    for lane in node.lanes:
        jb = clone(lane.jb)
        before = held_tags(jb)
        pkt = mkpacket(ext, lane.seq0, lane.ts0, stream)
        try:
            pli, frame = jb.add(pkt)
        except Exception as e:
            V("jitter/raises", "%s: %s" % (type(e).__name__, e))
            return None
        slots = jb._packets
        if len(slots) != cap or sum(1 for p in slots if p is not None) > cap:
            V("jitter/occupancy", "%d slots for capacity %d" % (len(slots), cap))
            return None
        after = held_tags(jb)
        tags = None
        if frame is not None:
            data = frame.data
            if len(data) % 4 or not data:
                V("jitter/frame-data", "frame data of %d bytes is not a concatenation of payloads" % len(data))
                return None
            tags = [int.from_bytes(data[i:i + 4], "big") for i in range(0, len(data), 4)]
            known = node.received | {ext}
            if any(t not in known for t in tags):
                V("jitter/frame-unknown-packet", "frame contains %r, never received" % [t for t in tags if t not in known][:3])
                return None
            if any(b != a + 1 for a, b in zip(tags, tags[1:])):
                V("jitter/frame-not-consecutive", "frame built from packets %r" % (tags,))
                return None
            want_ts = (lane.ts0 + TS_STEP * stream.frame_of(tags[0])) % M32
            if any(stream.frame_of(t) != stream.frame_of(tags[0]) for t in tags) or frame.timestamp != want_ts:
                V("jitter/frame-mixed-timestamp", "frame ts %d built from packets %r of frames %r" % (
                    frame.timestamp, tags, [stream.frame_of(t) for t in tags]))
                return None
            if not (node.late_seen or late):
                dup = [t for t in tags if t in node.released]
                if dup:
                    V("jitter/packet-in-two-frames", "packets %r released again" % dup[:4])
                    return None
                if node.last_first is not None and tags[0] <= node.last_first:
                    V("jitter/frames-out-of-order", "frame starting at %d released after frame starting at %d" % (
                        tags[0], node.last_first))
                    return None
        if video:
            gone = (before | {ext}) - after - set(tags or ()) - {ext}
            if gone and not pli:
                V("jitter/discard-without-pli", "held packets %r discarded without key-frame request" % sorted(gone)[:5])
                return None
        if not isinstance(pli, bool):
            V("jitter/pli-type", "pli flag is %r" % (pli,))
            return None
        outs.append((pli, tuple(tags) if tags else None,
                     None if frame is None else (frame.timestamp - lane.ts0) % M32,
                     tuple(sorted(after))))
        new_lanes.append(Lane(jb, lane.seq0, lane.ts0))
    if len(outs) > 1 and any(o != outs[0] for o in outs[1:]):
        k = next(i for i, o in enumerate(outs) if o != outs[0])
        V("origin/jitter-differs", "lane seq0=%d ts0=%d gives %r, lane seq0=%d ts0=%d gives %r" % (
            node.lanes[0].seq0 % M16, node.lanes[0].ts0, outs[0][:3], node.lanes[k].seq0 % M16, node.lanes[k].ts0, outs[k][:3]))
        return None
    pli, tags, _, _ = outs[0]
    released = node.released
    last_first = node.last_first
    if tags:
        released = released | frozenset(tags)
        last_first = tags[0]
    return Node(max(node.highest, ext), node.received | {ext}, released, last_first, node.late_seen or late, new_lanes)


def start_node(cfg, stream, origins, prefill, V):
    cap, prefetch, video = cfg
    lanes = [Lane(JitterBuffer(capacity=cap, prefetch=prefetch, is_video=video), (s - BASE_EXT) % M16, t) for s, t in origins]
    node = Node(BASE_EXT - 1, frozenset(), frozenset(), None, False, lanes)
    n = {"empty": 0, "cap-1": cap - 1, "cap+3": cap + 3}[prefill]
    for _ in range(n):
        node = step(node, 1, cfg, stream, V, ())
        if node is None:
            return None
    return node


def walk(task):
    """task = (cfg, pattern, origins, prefill, depth, first symbols or None)"""
    cfg, pattern, origins, prefill, depth, firsts = task
    cap = cfg[0]
    stream = Stream(pattern)
    T = Tally()
    A = alphabet(cap)
    hist = []
    viol = []

    def V(clause, detail):
        viol.append((clause, detail))

    root = start_node(cfg, stream, origins, prefill, V)
    nodes = 0
    frames = 0
    if root is None:
        clause, detail = viol[0]
        T.violation(clause + "/prefill", clause, detail, dict(kind="jitter", cfg=list(cfg), pattern=pattern, origins=origins,
                                                            prefill=prefill, deltas=[]))
        return T
    states = set()

    def rec(node, d):
        nonlocal nodes, frames
        for sym in (A if (d > 0 or firsts is None) else firsts):
            hist.append(sym)
            del viol[:]
            child = step(node, sym, cfg, stream, V, hist)
            nodes += 1
            if child is None:
                clause, detail = viol[0]
                T.violation(clause, clause, "%s [cap=%d prefetch=%d video=%s pattern=%r start=%s arrivals=%r]" % (
                    detail, cfg[0], cfg[1], cfg[2], pattern, prefill, list(hist)),
                    dict(kind="jitter", cfg=list(cfg), pattern=pattern, origins=[list(o) for o in origins], prefill=prefill,
                         deltas=list(hist)))
            else:
                if child.last_first != node.last_first:
                    frames += 1
                jb = child.lanes[0].jb
                states.add(hash((child.highest - (jb._origin or 0), tuple(p._ext - child.highest if p else None for p in jb._packets),
                                 child.late_seen)))
                if d + 1 < depth:
                    rec(child, d + 1)
            hist.pop()

    rec(root, 0)
    T.evaluations = nodes
    T.transitions = nodes * len(origins)
    T.distinct = len(states)
    T.count("tree-nodes", nodes)
    T.count("frames-released", frames)
    if firsts is None or firsts[0] == A[0]:
        T.sample(dict(kind="arrival-tree", capacity=cfg[0], prefetch=cfg[1], video=cfg[2], pattern=pattern, start=prefill,
                      origins=[list(o) for o in origins], depth=depth, alphabet=A), limit=2)
    return T


# ----------------------------------------------------------------------------- completeness clause
def completeness(task):
    cap, prefetch, video, pattern, nframes, maxdisp, seq0 = task
    stream = Stream(pattern)
    T = Tally()
    # packets of the first nframes frames
    n = 0
    while stream.frame_of(n) < nframes:
        n += 1
    total_frames = nframes
    cont = n + (max(prefetch, 1) + 2) * max(pattern) + 4          # in-order continuation long enough to flush
    # all permutations of 1..n-1 (packet 0 first: it anchors the stream) with |position - index| <= maxdisp
    def perms(prefix, remaining):
        pos = len(prefix)
        if not remaining:
            yield prefix
            return
        for x in sorted(remaining):
            if abs(x - pos) <= maxdisp:
                # feasibility: the smallest remaining element must not be overdue
                if min(remaining) < pos - maxdisp:
                    return
                yield from perms(prefix + [x], remaining - {x})
    count = 0
    for order in perms([0], frozenset(range(1, n))):
        count += 1
        jb = JitterBuffer(capacity=cap, prefetch=prefetch, is_video=video)
        released = []
        bad = None
        seq = list(order) + list(range(n, n + cont))
        # reference: frame i can be released once frames i .. i+m-1 are complete, the first packet of frame i+m has arrived and
        # all earlier frames are out (m = max(prefetch, 1)).  The implementation releases at most one frame per arrival, so the
        # literal statement ("every frame except the trailing prefetch window is released") can be demanded at the END OF THE
        # STREAM, without any continuation, exactly for the arrival orders in which no single arrival makes two frames releasable.
        m = max(prefetch, 1)
        arrived, ref_released, one_per_arrival = set(), 0, True
        first_pkt = {}
        for e in range(n + 1):
            first_pkt.setdefault(stream.frame_of(e), e)

        def frame_complete(f):
            lo = first_pkt[f]
            hi = first_pkt.get(f + 1, n)
            return all(x in arrived for x in range(lo, hi))
        for ext in order:
            arrived.add(ext)
            newly = 0
            while ref_released + m <= total_frames and all(frame_complete(f) for f in range(ref_released, ref_released + m)) and \
                    first_pkt.get(ref_released + m, n) in arrived:
                ref_released += 1
                newly += 1
            if newly > 1:
                one_per_arrival = False
        for k, ext in enumerate(seq):
            try:
                pli, frame = jb.add(mkpacket(ext, seq0, 0, stream))
            except Exception as e:
                bad = ("jitter/raises", "%s: %s" % (type(e).__name__, e))
                break
            if frame is not None:
                tags = [int.from_bytes(frame.data[i:i + 4], "big") for i in range(0, len(frame.data), 4)]
                released.append((stream.frame_of(tags[0]), tags))
            if k == n - 1:
                released_at_end_of_stream = len(released)
        if bad is None:
            got = [f for f, _ in released if f < total_frames]
            whole = all(tags == [e for e in range(tags[0], tags[0] + len(tags))] and
                        len(tags) == stream.pattern[f % len(stream.pattern)] for f, tags in released if f < total_frames)
            if got != list(range(total_frames)) or not whole:
                bad = ("jitter/completeness", "frames released (in order of release) %r, expected each of 0..%d exactly once and whole" % (
                    got, total_frames - 1))
            elif one_per_arrival and released_at_end_of_stream != ref_released:
                bad = ("jitter/completeness-at-stream-end", "%d frames released when the last packet of the stream had arrived, %d were complete, "
                       "followed by the next frame's first packet and in turn (no arrival made two frames releasable)" % (
                           released_at_end_of_stream, ref_released))
            elif list(order) == list(range(n)):
                # in-order arrival: exactly the trailing prefetch window is still held when the stream ends
                want = total_frames - max(prefetch, 1)
                # frames of the stream released by the time its last packet arrived
                if released_at_end_of_stream != max(0, want):
                    bad = ("jitter/completeness-window", "in-order stream of %d frames: %d released when the last packet arrived, "
                           "expected all but the trailing %d" % (total_frames, released_at_end_of_stream, max(prefetch, 1)))
        if bad:
            T.violation(bad[0], bad[0], "%s [cap=%d prefetch=%d video=%s pattern=%r order=%r]" % (bad[1], cap, prefetch, video, pattern, order),
                        dict(kind="completeness", task=list(task), order=list(order)))
    T.case(None, count)
    T.transitions = count * (n + cont)
    T.count("completeness-permutations", count)
    T.sample(dict(kind="completeness", capacity=cap, prefetch=prefetch, pattern=pattern, packets=n, max_displacement=maxdisp,
                  permutations=count), limit=1)
    return T


# ----------------------------------------------------------------------------- entry points
def configs():
    out = []
    for cap in (4, 8, 16, 128):
        for prefetch in (0, 1, 4):
            for video in (False, True):
                for s0 in (0, 65530):
                    for pattern in ([1, 3, 2], [8]):
                        out.append(((cap, prefetch, video), pattern, s0))
    return out


def tree_tasks(tier):
    tasks = []
    cfgs = configs()
    deep = [c for c in cfgs if c[0][0] in (4, 16) and c[0][1] in (0, 4) and c[2] == 65530 and c[1] == [1, 3, 2]]   # 8 configs
    D = 4 if tier == "quick" else 5
    for cfg, pattern, s0 in cfgs:
        for prefill in ("empty", "cap-1", "cap+3"):
            if tier == "quick":
                tasks.append((cfg, pattern, [(s0, 0)], prefill, D, None))
            else:
                for sym in alphabet(cfg[0]):
                    tasks.append((cfg, pattern, [(s0, 0)], prefill, D, [sym]))
    for cfg, pattern, s0 in deep:
        for sym in alphabet(cfg[0]):
            for prefill in (("empty",) if tier == "quick" else ("empty", "cap-1", "cap+3")):
                tasks.append((cfg, pattern, [(s0, 2 ** 32 - 4000)], prefill, D + 1, [sym]))
    return tasks


def completeness_tasks(tier):
    tasks = []
    for cap, maxdisp in ((16, 2), (16, 3), (128, 3), (128, 5 if tier == "thorough" else 4), (8, 1), (4, 0), (8, 0)):
        for prefetch in (0, 1, 2, 4):
            for video in (False, True):
                for pattern in ([1], [2], [1, 3, 2]):
                    if cap <= 8 and (prefetch > 1 or pattern != [1]):
                        continue
                    if cap == 16 and prefetch == 4 and pattern == [1, 3, 2] and maxdisp > 2:
                        continue
                    for seq0 in (0, 65531):
                        tasks.append((cap, prefetch, video, pattern, 9 if pattern == [1] else 5, maxdisp, seq0))
    # in-order arrival with frames as large as the buffer allows (a frame needs its packets plus the first packet of the
    # next frame to be held at once: capacity - 1 packets is the largest frame that must still come out)
    for cap in (4, 8, 16, 128):
        for pattern in ([cap - 1], [cap - 2, 1], [1, 3, 2]):
            if max(pattern) + 1 > cap:
                continue
            for prefetch in (0, 1):
                for video in (False, True):
                    for seq0 in (0, 65531 if cap < 128 else 65000):
                        tasks.append((cap, prefetch, video, pattern, 5, 0, seq0))
    return tasks


def run(tier, seed):
    total = pmap("props.c10", "walk", tree_tasks(tier), seed=seed)
    nodes = total.evaluations
    comp = pmap("props.c10", "completeness", completeness_tasks(tier), seed=seed)
    total.merge(comp)
    D = 4 if tier == "quick" else 5
    return result(
        PID, total,
        rule="complete tree of arrival sequences of length <= %d (and %d on 8 configurations) over the 14-symbol alphabet "
             "{+1,+2,+3,0,-1,-2,-3,+cap-1,+cap,+cap+1,-99,-100,-101,+32767} (offsets from the highest sequence seen), from 3 start "
             "states (empty, pre-filled with cap-1, pre-filled with cap+3 packets) for 96 configurations (capacity {4,8,16,128} x "
             "prefetch {0,1,4} x audio/video x first sequence {0,65530} x frame pattern {[1,3,2],[8]}); after every add on the real "
             "JitterBuffer: no exception, occupancy <= capacity, released frame = consecutive received packets of one frame with "
             "the frame's timestamp, no packet in two frames and increasing order unless a packet arrived >= 100 late, video: "
             "discarding held packets implies the key-frame flag. Completeness: all permutations (first packet first) with "
             "displacement <= d of a 9-packet / 5-frame stream followed by an in-order continuation (and, for the orders in which no arrival makes two frames releasable at once, already when the stream ends): every frame released exactly "
             "once, whole, in order; in-order arrival: exactly the trailing max(prefetch,1) frames held at the end. states = "
             "distinct (buffer contents relative to highest, late flag)" % (D, D + 1),
        assumptions=["oracle comparisons use harness-side extended packet indices; 16-bit aliasing (two packets 65536 apart) is "
                     "outside the alphabet except through the +32767 symbol",
                     "completeness is demanded for displacement d <= 1..5 depending on capacity (listed in samples), where the "
                     "premise 'displaced by less than the capacity' certainly holds"],
        extra=dict(tree_nodes=nodes, completeness_permutations=comp.evaluations))


def replay(rep):
    r = rep["replay"]
    if r["kind"] == "jitter":
        cfg = tuple(r["cfg"])
        stream = Stream(r["pattern"])
        out = []

        def V(c, d):
            out.append((c, d))
        node = start_node(cfg, stream, [tuple(o) for o in r["origins"]], r["prefill"], V)
        for d in r["deltas"]:
            if node is None:
                break
            ext = node.highest + d
            node = step(node, d, cfg, stream, V, ())
            print("arrival %+d (packet %d)%s" % (d, ext, "" if node is None else "  held=%r last_frame_first=%r" % (
                sorted(held_tags(node.lanes[0].jb)), node.last_first)))
        if out:
            print("FAILS clause=%s: %s" % out[0])
            return 1
    else:
        T = Tally()
        t = list(r["task"])
        t[3] = list(t[3])
        T = completeness(tuple(t))
        for sig, v in T.violations.items():
            print("FAILS clause=%s: %s" % (v["clause"], v["detail"]))
            return 1
    print("no violation")
    return 0
