"""C02 - data channel traffic always drains (E-sched: deviation-bounded exploration of the real
RTCSctpTransport pair; the deviation prefix is the fault history, the default-policy suffix is the
healed network; terminal oracle = drained + probe traffic flows)."""
from props import sctp_common as C
from vt.sched_check import run_sched, replay_sched

PID = "C02"
DRIVERS = C.drivers()
# the calibration driver of DESIGN (mixed sizes make gap-acked bytes differ from retransmitted bytes)
DRIVERS["D5s"] = dict(setup="settled", channels=[C.chan("m", negotiated=0)],
                      script=[[("send", "A", "m", C.pay("m", i, n)) for i, n in enumerate([100, 1100, 100, 1100])]])
DRIVERS["D7"] = dict(setup="settled", channels=[C.chan("m", negotiated=0)],
                     script=[[("send", "A", "m", C.pay("m", 0, 6000))], [("send", "A", "m", C.pay("m", 1, 100)),
                                                                       ("send", "B", "m", C.pay("mb", 0, 100))]])
# stream sequence numbers about to wrap: a reordered message around the wrap must not stay in the reassembly queue
DRIVERS["D12"] = dict(setup="settled", sseq={"w": 65534}, channels=[C.chan("w", negotiated=0)],
                      script=[[("send", "A", "w", C.pay("w", i, 100 if i != 1 else 1300)) for i in range(4)]])

# D2's traffic with both TSN spaces about to wrap (a retransmitted chunk from before the wrap arrives after chunks from after it)
DRIVERS["D14"] = dict(DRIVERS["D2"], tsn={"A": 2 ** 32 - 2, "B": 2 ** 32 - 3})
# a reliable channel sharing the association with a partially reliable one whose message is larger than the congestion
# window: abandoning it (fragments never transmitted included) must not leave anything behind that stalls the reliable one
from props import c06 as _c06     # noqa: E402
DRIVERS["D15"] = _c06.DRIVERS["P7"]
DRIVERS["D16"] = _c06.DRIVERS["P3"]


def scenario(name):
    return C.make_factory(DRIVERS[name]), C.SctpOracle(safety=True, liveness=True, do_probe=True, probe_n=4), C.default_signature


QUICK = [("D5s", 2), ("D5", 2), ("D6", 2), ("D4", 2), ("D2", 2), ("D1", 1), ("D3", 2), ("D7", 2), ("D12", 2), ("D14", 2), ("D15", 2), ("D16", 2)]
THOROUGH = [("D5s", 3), ("D5", 3), ("D6", 3), ("D4", 3), ("D2", 3), ("D1", 2), ("D3", 3), ("D7", 3), ("D12", 3), ("D14", 3), ("D15", 3), ("D16", 3)]


def run(tier, seed):
    sb = QUICK if tier == "quick" else THOROUGH
    return run_sched(
        "props.c02", PID, sb, seed,
        rule="all executions of each driver with at most k deviations (drop/dup/reorder per direction, timer first, "
             "operation first) from the default FIFO policy, then the default (fault-free) policy to quiescence; "
             "terminal oracle: queues empty, bufferedAmount 0, everything reliable delivered, then 4x1200 B probe "
             "each way delivered and drained; distinct = canonical state digest",
        assumptions=["transport send never suspends (aioice sendto is synchronous)",
                     "fault history bounded by k deviations; liveness = quiescent within 600 virtual seconds",
                     "DTLS replaced by a stand-in exposing state/_send_data/_register_data_receiver"])


def replay(rep):
    return replay_sched(rep)
