"""C19 - close() always completes, is idempotent and leaves nothing running.

E-sched over interruption points: a scripted life of a pair of real RTCPeerConnections (create,
negotiate, connect, data and RTCP flowing) is executed one event-loop callback at a time; for EVERY
cut index (every await boundary of the whole life is one) and every closer in {A, B, both at once, A
twice concurrently, A after its peer vanished} the run is replayed up to the cut, close() is started
there, and the default policy continues.  The oracle checks completion, idempotence, final states,
channels, tracks, silence after completion, and that no task or thread is left.
"""
import asyncio
import random
import threading

from aiortc import RTCConfiguration, RTCBundlePolicy
from aiortc.exceptions import InvalidStateError
from aiortc.mediastreams import MediaStreamError
from vt.enumcheck import Tally, pmap, result
from vt.loop import HarnessError
from vt.pcworld import PcWorld, PendingTrack, PacketTrack, sync_threads, encoded_frames, hold_decoders, SyncThread, SyncQueue

PID = "C19"
HORIZON_S = 30.0
HORIZON_CB = 200000
CLOSERS = ["A", "B", "both", "A-twice", "A-peer-gone"]

SHAPES = {
    # name: (offerer media, offerer data channel, answerer media, answerer data channel, bundle policy)
    "av+dc": (["audio", "video"], True, ["audio"], False, "balanced"),
    "dc-only": ([], True, [], False, "balanced"),
    "audio-only": (["audio"], False, ["audio"], False, "balanced"),
    "video-recv": (["video"], False, [], False, "max-bundle"),
    "av+dc-compat": (["audio", "video"], True, ["video"], True, "max-compat"),
    "dc-both": ([], True, [], True, "max-bundle"),
    "a+dc-bundle": (["audio"], True, ["audio", "video"], False, "max-bundle"),
    "video-both": (["video"], False, ["video"], False, "balanced"),
    # the data channel is created BEFORE the first track: with max-bundle every m-line then shares the SCTP transport's DTLS
    "dc-first-bundle": (["audio"], True, ["audio"], False, "max-bundle", "dc-first"),
    # kinds marked * produce real media: encoded Opus / VP8 packets every 20 / 40 ms of virtual time flow through the real
    # sender, SRTP, router, jitter buffer and the real decoder threads (synchronised with the stepping) to a consumer
    "audio-media": (["audio*"], False, ["audio*"], False, "balanced"),
    "av-media+dc": (["audio*", "video*"], True, ["audio*"], False, "max-bundle"),
    # the same with the script's pauses five times shorter (0.7 s of media): the quick tier's media shape
    "av-media+dc-short": (["audio*", "video*"], True, ["audio*"], False, "max-bundle"),
}
MEDIA_SHAPES = ("audio-media", "av-media+dc", "av-media+dc-short")


def make_track(kind):
    return PacketTrack(kind[:-1]) if kind.endswith("*") else PendingTrack(kind)
BUNDLE = {"balanced": RTCBundlePolicy.BALANCED, "max-compat": RTCBundlePolicy.MAX_COMPAT, "max-bundle": RTCBundlePolicy.MAX_BUNDLE}


class Life:
    """One pair of peer connections with everything the oracle needs to observe."""

    def __init__(self, shape):
        omedia, odc, amedia, adc, bundle = SHAPES[shape][:5]
        dc_first = len(SHAPES[shape]) > 5
        self.pace = 0.2 if shape.endswith("-short") else 1.0
        self.media = shape in MEDIA_SHAPES
        if self.media:
            encoded_frames("audio"), encoded_frames("video")    # (creating an encoder draws from `random`: before the seed)
        random.seed(12345)
        self.w = PcWorld(real_decoder_thread="sync" if self.media else True)
        self.loop = self.w.loop
        cfg = lambda: RTCConfiguration(iceServers=[], bundlePolicy=BUNDLE[bundle])
        self.pc = {"A": self.w.pc(cfg()), "B": self.w.pc(cfg())}
        self.emitted = {"A": [], "B": []}       # every event emitted by the connection, its channels and remote tracks
        self.channels = {"A": [], "B": []}
        self.tracks = {"A": [], "B": []}
        self.consumers = []
        self.frames = {}                         # side -> decoded frames handed to the application
        self.closed_at = {}                      # side -> index into emitted[side] when its close() completed
        for side in "AB":
            self._spy(self.pc[side], side, "pc")
            self.pc[side].on("datachannel", lambda ch, side=side: self._channel(side, ch))
            self.pc[side].on("track", lambda t, side=side: self._track(side, t))
        if odc and dc_first:
            self._channel("A", self.pc["A"].createDataChannel("a-chat"))
        for kind in omedia:
            self.pc["A"].addTrack(make_track(kind))
        for kind in amedia:
            self.pc["B"].addTrack(make_track(kind))
        if odc and not dc_first:
            self._channel("A", self.pc["A"].createDataChannel("a-chat"))
        if adc:
            self._channel("B", self.pc["B"].createDataChannel("b-chat"))
        self.life_task = self.loop.create_task(self.life())
        self.harness_tasks = [self.life_task]

    def _spy(self, emitter, side, what):
        orig = emitter.emit

        def emit(event, *a, **kw):
            self.emitted[side].append((what, event))
            return orig(event, *a, **kw)
        emitter.emit = emit

    def _channel(self, side, ch):
        self.channels[side].append(ch)
        self._spy(ch, side, "channel:" + ch.label)
        if side == "B":
            ch.on("message", lambda m, ch=ch: ch.readyState == "open" and ch.send(m))
        if not ch.label.startswith("after-"):
            # an application that reacts to a channel closing by opening a replacement at once (the association may just have
            # been aborted by the peer, the connection itself not yet closed)
            def reopen(side=side, ch=ch):
                try:
                    self._channel(side, self.pc[side].createDataChannel("after-" + ch.label))
                except InvalidStateError:
                    pass
            # (not from inside the event: an `async def` listener runs a moment later, when the transport has finished closing)
            ch.on("close", lambda: self.loop.call_soon(reopen))

    def _track(self, side, track):
        self.tracks[side].append(track)
        self._spy(track, side, "track:" + track.kind)

        async def consume():
            try:
                while True:
                    await track.recv()
                    self.frames[side] = self.frames.get(side, 0) + 1
            except MediaStreamError:
                pass
        t = self.loop.create_task(consume())
        self.consumers.append(t)
        self.harness_tasks.append(t)

    async def life(self):
        a, b = self.pc["A"], self.pc["B"]
        try:
            await a.setLocalDescription(await a.createOffer())
            await b.setRemoteDescription(a.localDescription)
            await b.setLocalDescription(await b.createAnswer())
            await a.setRemoteDescription(b.localDescription)
            await asyncio.sleep(1.2 * self.pace)
            for ch in self.channels["A"]:
                if ch.readyState == "open":
                    ch.send("hello")
            await asyncio.sleep(1.5 * self.pace)
            for ch in self.channels["A"]:
                if ch.readyState == "open":
                    ch.send(b"x" * 3000)
            await asyncio.sleep(0.5 * self.pace)
            # the application closes a channel itself: while the stream reset is in progress the channel is "closing"
            for ch in self.channels["A"][:1]:
                ch.close()
            await asyncio.sleep(0.3 * self.pace)
            # the application stops a transceiver itself: close() later meets a sender / receiver that is already stopped
            for t in a.getTransceivers()[:1]:
                await t.stop()
            await asyncio.sleep(0.2 * self.pace)
            # a peer that ends the association gracefully (aiortc itself never sends SHUTDOWN): A answers with SHUTDOWN ACK and
            # waits for the SHUTDOWN COMPLETE under timer T2 - close() finds a shutdown in progress
            if a.sctp is not None and a.sctp.state == "connected":
                import aiortc.rtcsctptransport as S
                chunk = S.ShutdownChunk()
                chunk.cumulative_tsn = a.sctp._last_sacked_tsn
                await a.sctp._handle_data(S.serialize_packet(a.sctp._remote_port, a.sctp._local_port, a.sctp._local_verification_tag, chunk))
                await asyncio.sleep(0.3 * self.pace)
        except (InvalidStateError, ConnectionError):
            pass                    # a negotiation call that lost the race against close()
        except Exception as e:      # other failures of the racing call are recorded, the oracle is about close()
            self.life_error = "%s: %s" % (type(e).__name__, e)

    # ---- stepping
    def step(self):
        """One callback, or - when none is ready - the next timer. Returns False when nothing is left."""
        r = self.loop.step() or self.loop.fire_one_timer()
        if self.media:
            sync_threads()
        return r

    def teardown(self):
        try:
            self.w.close()
        finally:
            for t in threading.enumerate():
                if t is not threading.main_thread() and t.name.endswith("-decoder") and t.is_alive():
                    # never leave a decoder thread behind in the worker process: it blocks interpreter exit
                    pass


def _fire_one_timer(loop):
    when = loop.next_timer_when()
    if when is None:
        return False
    import heapq
    h = heapq.heappop(loop._scheduled)
    h._scheduled = False
    if when > loop._vtime:
        loop._vtime = when
    loop.callbacks_run += 1
    h._run()
    return True


def life_length(shape):
    L = Life(shape)
    L.loop.fire_one_timer = lambda: _fire_one_timer(L.loop)
    n = 0
    try:
        while not L.life_task.done():
            if not L.step():
                raise HarnessError("life script deadlocked")
            n += 1
            if n > 50000:
                raise HarnessError("life script too long")
        return n
    finally:
        L.teardown()


def live_timers(L):
    """Timers still scheduled that do not belong to the harness's own tasks (asyncio.sleep of the life script / consumers)."""
    out = []
    for h in L.loop._scheduled:
        if h._cancelled:
            continue
        fut = h._args[0] if h._args else None
        owners = [getattr(cb[0], "__self__", None) for cb in (getattr(fut, "_callbacks", None) or [])]
        if owners and all(o in L.harness_tasks for o in owners):
            continue
        out.append(getattr(h._callback, "__qualname__", repr(h._callback)))
    return out


def run_cut(shape, cut, closer, drop=None, info=None, hold=None):
    """Returns list of (clause, detail).  drop = index (counted from the moment close() starts) of ONE datagram that the
    network loses; info, when given, receives the number of datagrams sent from that moment on."""
    L = Life(shape)
    loop = L.loop
    loop.fire_one_timer = lambda: _fire_one_timer(loop)
    out = []
    try:
        for i in range(cut):
            if hold is not None and i == cut - hold:
                hold_decoders()         # the decoders stall `hold` callbacks before close(): frames pile up behind them
            if not L.step():
                break
        threads_before = {t for t in threading.enumerate()}
        sides = {"A": ["A"], "B": ["B"], "both": ["A", "B"], "A-twice": ["A", "A"], "A-peer-gone": ["A"]}[closer]
        if closer == "A-peer-gone":
            for c in L.w.net.conns:
                pass
            # the peer vanishes: everything to and from B is silently lost from now on
            L.w.net.cut.update(c for c in L.w.net.conns)
        if hold is not None and info is not None:
            info["backlog"] = sum(q.outstanding for q in SyncQueue.registry)
        L.w.net.count_from = L.w.net.sent
        L.w.net.drop_index = drop
        closes = []
        for s in sides:
            t = loop.create_task(L.pc[s].close())
            closes.append((s, t))
            L.harness_tasks.append(t)
        t0 = loop.time()
        n0 = loop.callbacks_run
        while not all(t.done() for _, t in closes):
            if not L.step():
                out.append(("close/hangs", "close() of %s pending with nothing left to run (deadlock)" % closer))
                break
            if loop.time() - t0 > HORIZON_S or loop.callbacks_run - n0 > HORIZON_CB:
                pend = [s for s, t in closes if not t.done()]
                out.append(("close/does-not-complete", "close() of %s still pending after %.0f virtual seconds / %d callbacks" % (
                    pend, loop.time() - t0, loop.callbacks_run - n0)))
                break
        for s, t in closes:
            if t.done() and not t.cancelled() and t.exception() is not None:
                e = t.exception()
                out.append(("close/raises", "close() of %s raised %s: %s" % (s, type(e).__name__, e)))
        if out:
            return out
        if hold is not None:
            # close() has returned on both sides: no decoder thread may be running any more (it has a backlog to work through
            # - whoever joined it must have waited for that)
            alive = [t.name for t in SyncThread.registry if t.is_alive()]
            if alive:
                out.append(("leak/threads", "decoder threads still running when close() returned (backlog of frames when close() started): %r" % alive[:4]))
                for q in SyncQueue.registry:
                    q.slow = 0.0
                for t in SyncThread.registry:
                    threading.Thread.join(t, 10)
                return out
        closed_sides = sorted(set(sides))
        for s in closed_sides:
            L.closed_at[s] = len(L.emitted[s])
        # a second close() is a no-op
        for s in closed_sides:
            def count():
                return len([e for e in L.emitted[s] if not (e[0].startswith("track:") and e[1] == "ended")])
            before = (L.pc[s].signalingState, L.pc[s].connectionState, count())
            t = loop.create_task(L.pc[s].close())
            L.harness_tasks.append(t)
            for _ in range(2000):
                if t.done() or not L.step():
                    break
            if not t.done():
                out.append(("close/second-call-hangs", "second close() of %s does not return" % s))
                t.cancel()
            elif t.exception() is not None:
                out.append(("close/second-call-raises", "%s" % t.exception()))
            after = (L.pc[s].signalingState, L.pc[s].connectionState, count())
            if after != before:
                out.append(("close/second-call-has-effects", "%s: %r -> %r" % (s, before, after)))
        # let everything that is still scheduled run for a while (the other side may still be alive)
        t1 = loop.time()
        n1 = loop.callbacks_run
        while loop.time() - t1 < 8.0 and loop.callbacks_run - n1 < 100000:
            if not L.step():
                break
        for s in closed_sides:
            pc = L.pc[s]
            states = (pc.signalingState, pc.iceConnectionState, pc.connectionState)
            if states != ("closed", "closed", "closed"):
                out.append(("state/not-closed", "%s: signaling/ice/connection state %r after close()" % (s, states)))
            for ch in L.channels[s]:
                if ch.readyState != "closed":
                    out.append(("state/channel-not-closed", "%s: channel %s is %s after close()" % (s, ch.label, ch.readyState)))
            for tr in L.tracks[s]:
                if tr.readyState != "ended":
                    out.append(("state/track-not-ended", "%s: received %s track is %s after close()" % (s, tr.kind, tr.readyState)))
            late = L.emitted[s][L.closed_at[s]:]
            late = [e for e in late if not (e[0].startswith("track:") and e[1] == "ended")]
            if late:
                out.append(("events/after-close", "%s: events after close() completed: %r" % (s, late[:4])))
        # nothing left running on the closed side(s): tasks
        if sorted(set(sides)) == ["A", "B"] or closer == "both":
            left = [t for t in loop.pending_tasks() if t not in L.harness_tasks]
            if left:
                names = sorted({getattr(t.get_coro(), "__qualname__", "?") for t in left})
                out.append(("leak/tasks", "%d tasks still pending after both sides closed: %s" % (len(left), names[:5])))
        else:
            # only one side closed: close the other one too, then nothing at all may be left
            other = "B" if "A" in sides else "A"
            # the survivor's application creates one more channel (its peer is gone: the association may already have been
            # aborted) - close() must close that one too
            late = None
            try:
                late = L.pc[other].createDataChannel("late")
            except InvalidStateError:
                pass                    # the connection closed itself when its transports went away
            t = loop.create_task(L.pc[other].close())
            L.harness_tasks.append(t)
            n2 = loop.callbacks_run
            while not t.done() and loop.callbacks_run - n2 < HORIZON_CB:
                if not L.step():
                    break
            if not t.done():
                out.append(("close/does-not-complete", "close() of the surviving side %s does not complete" % other))
            else:
                t3 = loop.time()
                n3 = loop.callbacks_run
                while loop.time() - t3 < 4.0 and loop.callbacks_run - n3 < 50000:
                    if not L.step():
                        break
                left = [t for t in loop.pending_tasks() if t not in L.harness_tasks]
                if left:
                    names = sorted({getattr(t.get_coro(), "__qualname__", "?") for t in left})
                    out.append(("leak/tasks", "%d tasks still pending after both sides closed: %s" % (len(left), names[:5])))
                # the survivor has been closed as well by now: the same final-state clauses hold for it
                pc = L.pc[other]
                states = (pc.signalingState, pc.iceConnectionState, pc.connectionState)
                if states != ("closed", "closed", "closed"):
                    out.append(("state/not-closed", "%s (closed second): signaling/ice/connection state %r after close()" % (other, states)))
                for ch in L.channels[other]:
                    if ch.readyState != "closed":
                        out.append(("state/channel-not-closed", "%s (closed second): channel %s is %s after close()" % (other, ch.label, ch.readyState)))
                for tr in L.tracks[other]:
                    if tr.readyState != "ended":
                        out.append(("state/track-not-ended", "%s (closed second): received %s track is %s after close()" % (other, tr.kind, tr.readyState)))
                if late is not None and late.readyState != "closed":
                    out.append(("state/channel-not-closed", "%s: a channel created after the peer had closed is %s after close()" % (other, late.readyState)))
        if all(L.pc[s].connectionState == "closed" for s in "AB"):
            left = live_timers(L)
            if left:
                out.append(("leak/timers", "%d timers still scheduled after both sides closed and everything has run: %s" % (len(left), sorted(set(left))[:4])))
        unfinished = [t for t in L.consumers if not t.done()]
        if unfinished and all(L.pc[s].connectionState == "closed" for s in "AB"):
            out.append(("leak/track-consumer-blocked", "%d consumers of received tracks still blocked in recv() after close()" % len(unfinished)))
        alive = [t.name for t in threading.enumerate() if t is not threading.main_thread() and t.is_alive()]
        if alive and all(L.pc[s].connectionState == "closed" for s in "AB"):
            out.append(("leak/threads", "threads still alive after both sides closed: %r" % alive[:4]))
        dead = []
        for t, e in loop.dead_tasks():
            if t in L.harness_tasks:
                continue
            dead.append("%s: %s: %s" % (getattr(t.get_coro(), "__qualname__", "?"), type(e).__name__, str(e)[:80]))
        if dead:
            out.append(("task-exception", "; ".join(dead[:3])))
        return out
    finally:
        if info is not None:
            info["sent_after_cut"] = L.w.net.sent - (L.w.net.count_from if L.w.net.count_from is not None else L.w.net.sent)
        L.teardown()


def task(args):
    shape, closer, lo, hi = args
    T = Tally()
    for cut in range(lo, hi):
        T.case((shape, closer, cut))
        T.count("cuts/" + closer)
        try:
            v = run_cut(shape, cut, closer)
        except HarnessError as e:
            v = [("harness", str(e))]
        for clause, detail in v[:3]:
            T.violation(clause + "/" + closer, clause, "%s [shape %s, close() by %s started after %d callbacks]" % (detail, shape, closer, cut),
                        dict(kind="cut", shape=shape, closer=closer, cut=cut))
    if lo == 0:
        T.sample(dict(kind="interruption", shape=shape, closer=closer, cuts="%d..%d" % (lo, hi - 1)), limit=1)
    return T


def backlog_task(args):
    """Decoder backlog: the decoder workers of the media shape are held from `hold` callbacks before the cut (frames queue up
    behind them); close() on both sides at the cut must not return before the threads have ended."""
    shape, lo, hi, hold = args
    T = Tally()
    for cut in range(lo, hi):
        info = {}
        T.case((shape, "backlog", cut))
        T.count("cuts/decoder-backlog")
        try:
            v = run_cut(shape, cut, "both", hold=hold, info=info)
        except HarnessError as e:
            v = [("harness", str(e))]
        T.count("decoder-backlog/frames-behind-the-held-workers", info.get("backlog", 0))
        for clause, detail in v[:3]:
            T.violation(clause + "/backlog", clause, "%s [shape %s, decoders held %d callbacks before close() by both, started after %d callbacks]" % (
                detail, shape, hold, cut), dict(kind="cut", shape=shape, closer="both", cut=cut, hold=hold))
    return T


DROP_LIMIT = 40     # datagrams after the start of close() that may be the lost one (a close sends far fewer)


def drops_task(args):
    """One network deviation after the cut: for every cut and closer, each single datagram sent once close() has started
    (teardown messages, SCTP ABORT, DTLS close_notify, data and RTCP still in flight, whatever the other side answers) is
    lost in turn."""
    shape, closer, lo, hi = args
    T = Tally()
    for cut in range(lo, hi):
        info = {}
        try:
            run_cut(shape, cut, closer, drop=None, info=info)
        except HarnessError:
            continue
        n = min(info.get("sent_after_cut", 0), DROP_LIMIT)
        if info.get("sent_after_cut", 0) > DROP_LIMIT:
            T.count("drops/capped-at-%d" % DROP_LIMIT)
        for j in range(n):
            T.case((shape, closer, cut, j))
            T.count("drops/" + closer)
            try:
                v = run_cut(shape, cut, closer, drop=j)
            except HarnessError as e:
                v = [("harness", str(e))]
            for clause, detail in v[:3]:
                T.violation(clause + "/drop/" + closer, clause, "%s [shape %s, close() by %s started after %d callbacks, datagram #%d sent after that lost]" % (
                    detail, shape, closer, cut, j), dict(kind="cut", shape=shape, closer=closer, cut=cut, drop=j))
    return T


def run(tier, seed):
    shapes = [x for x in SHAPES if x != "av-media+dc-short"] if tier == "thorough" else ["av+dc", "dc-only", "audio-only", "a+dc-bundle", "dc-first-bundle", "av-media+dc-short"]
    tasks = []
    lengths = {}
    for shape in shapes:
        n = life_length(shape)
        lengths[shape] = n
        for closer in CLOSERS:
            step = 1
            chunk = 24
            for lo in range(0, n + 1, chunk):
                tasks.append((shape, closer, lo, min(n + 1, lo + chunk)))
    total = pmap("props.c19", "task", tasks, seed=seed)
    # k = 1 network deviation after the cut
    dshapes = ["dc-only", "audio-only"] if tier == "quick" else ["dc-only", "audio-only", "av+dc", "dc-first-bundle", "video-both"]
    dtasks = []
    for shape in dshapes:
        n = lengths.get(shape) or life_length(shape)
        for closer in ("A", "B", "both"):
            for lo in range(0, n + 1, 8):
                dtasks.append((shape, closer, lo, min(n + 1, lo + 8)))
    total.merge(pmap("props.c19", "drops_task", dtasks, seed=seed))
    # decoder backlog at close(): 64 cuts (thorough: 350) of the short media shape; each held frame costs 0.1 s of real time once released
    n = lengths.get("av-media+dc-short") or life_length("av-media+dc-short")
    first, last = (400, 463) if tier == "quick" else (300, 650)     # (media flows there: 25-50 frames pile up behind the held workers)
    total.merge(pmap("props.c19", "backlog_task", [("av-media+dc-short", lo, min(last + 1, lo + 8), 250) for lo in range(first, last + 1, 8)], seed=seed))
    total.transitions = total.evaluations
    return result(
        PID, total,
        rule="for each connection shape (%s) a scripted life (create tracks/data channels, offer/answer, connect with real DTLS and "
             "SCTP over fake ICE, data messages, RTCP timers, the application closing one channel and stopping one transceiver itself, the peer finally sending an SCTP SHUTDOWN; in the *-media shapes encoded Opus / VP8 "
             "packets flow every 20 / 40 ms through sender, SRTP, router, jitter buffer and the real decoder threads to a consumer) is stepped one event-loop callback at a time; for EVERY cut index 0..N "
             "(N = %s callbacks) and every closer in {A, B, both at once, A twice concurrently, A after its peer vanished} the run is "
             "replayed to the cut, close() is started and the default policy continues; oracle: close() completes within 30 virtual "
             "seconds, a second close() is a no-op, signaling/ICE/connection state closed, every data channel closed, received tracks "
             "ended and their consumers released, no event emitted after completion, no task of the connection pending once both "
             "sides are closed, no decoder thread alive, no task died with an exception. Plus ONE network deviation after the cut: on the "
             "shapes %s, for every cut and closer in {A, B, both}, each single datagram sent once close() has started is lost in turn "
             "(same oracle). Plus the decoder-backlog family: on the short media shape the decoder workers are held 250 callbacks before "
             "the cut, close() by both: no decoder thread may be running when close() returns. No timer may be left scheduled once both sides "
             "are closed. distinct = (shape, closer, cut[, lost datagram])" % (
                 ", ".join(shapes), lengths, ", ".join(dshapes)),
        assumptions=["aioice replaced by a fake connection; tracks produce no media or already encoded packets (no encoder executor threads, excluded by the "
                     "property); real decoder threads, in the media shapes synchronised with the stepping (the loop waits until "
                     "the worker is idle after every callback)", "set iteration order over transports is address dependent: a cut index may map "
                     "to a slightly different instant in another process"],
        extra=dict(life_lengths=lengths))


def replay(rep):
    r = rep["replay"]
    bad = 0
    for cut in (r["cut"],):
        v = run_cut(r["shape"], cut, r["closer"], drop=r.get("drop"), hold=r.get("hold"))
        print("shape %s closer %s cut %d:" % (r["shape"], r["closer"], cut))
        for clause, detail in v:
            print("FAILS clause=%s: %s" % (clause, detail))
            bad = 1
    if not bad:
        print("no violation")
    return bad
