"""C16 - H.264 and VP8 packetisation is lossless and respects the payload size limit (E-enum)."""
import fractions
import itertools

import av

from aiortc.codecs import h264 as H
from aiortc.codecs import vpx as V
from vt.enumcheck import Tally, pmap, result

PID = "C16"
LIMIT = 1300
SC4 = b"\x00\x00\x00\x01"

SIZES = [2, 3, 100, 649, 650] + list(range(1294, 1304)) + list(range(2594, 2601)) + list(range(3891, 3897)) + [60000]
SIZES_SMALL = [2, 3, 100, 649, 650, 1296, 1297, 1298, 1299, 1300, 1301, 2596, 2597, 3893, 3894]
HEADERS = [(f, nri, t) for f in (0, 1) for nri in (0, 3) for t in (1, 5, 7, 23)]


def nal(size, hdr, salt=0):
    f, nri, t = hdr
    body = bytes(((i + salt) % 251) + 1 for i in range(size - 1))      # never 0: no start code, no trailing zero
    return bytes([(f << 7) | (nri << 5) | t]) + body


def packet_of(data):
    p = av.Packet(data)
    p.pts = 3000
    p.time_base = fractions.Fraction(1, 90000)
    return p


def h264_case(nals, sc):
    """Returns None or (clause, detail)."""
    stream = b"".join((b"\x00\x00\x01" if s == 3 else SC4) + n for n, s in zip(nals, sc))
    enc = H.H264Encoder()
    try:
        payloads, ts = enc.pack(packet_of(stream))
    except Exception as e:
        return ("h264/pack-raises", "%s: %s" % (type(e).__name__, e))
    for p in payloads:
        if len(p) > LIMIT:
            return ("h264/payload-too-large", "payload of %d bytes (NAL sizes %r)" % (len(p), [len(n) for n in nals]))
        if len(p) < 2:
            return ("h264/payload-too-small", "payload of %d bytes" % len(p))
    out = b""
    try:
        for p in payloads:
            out += H.h264_depayload(p)
    except Exception as e:
        return ("h264/depayload-raises", "%s: %s" % (type(e).__name__, e))
    want = b"".join(SC4 + n for n in nals)
    if out != want:
        return ("h264/bitstream-differs", "NAL sizes %r start codes %r: recovered %d bytes, expected %d (first diff at %d)" % (
            [len(n) for n in nals], list(sc), len(out), len(want), _firstdiff(out, want)))
    # structure: FU-A runs and STAP-A members
    k = 0           # index of the NAL the next payload must start with
    i = 0
    while i < len(payloads):
        p = payloads[i]
        t = p[0] & 0x1F
        if t == H.NAL_TYPE_FU_A:
            run = []
            while i < len(payloads) and (payloads[i][0] & 0x1F) == H.NAL_TYPE_FU_A:
                run.append(payloads[i])
                i += 1
                if run[-1][1] & 0x40:
                    break
            starts = [bool(x[1] & 0x80) for x in run]
            ends = [bool(x[1] & 0x40) for x in run]
            if starts != [True] + [False] * (len(run) - 1) or ends != [False] * (len(run) - 1) + [True] or len(run) < 2:
                return ("h264/fu-a-markers", "S bits %r E bits %r" % (starts, ends))
            orig = nals[k][0]
            for x in run:
                if (x[0] & 0xE0) != (orig & 0xE0) or (x[1] & 0x1F) != (orig & 0x1F):
                    return ("h264/fu-a-header", "fragment carries indicator %#x header %#x for NAL header %#x" % (x[0], x[1], orig))
            if b"".join(x[2:] for x in run) != nals[k][1:]:
                return ("h264/fu-a-body", "fragments do not concatenate to the NAL body")
            k += 1
        elif t == H.NAL_TYPE_STAP_A:
            pos = 1
            members = []
            while pos < len(p):
                n = int.from_bytes(p[pos:pos + 2], "big")
                members.append(p[pos + 2:pos + 2 + n])
                pos += 2 + n
            if len(members) < 2 or members != nals[k:k + len(members)]:
                return ("h264/stap-a-members", "aggregated members %r, expected NALs from #%d of sizes %r" % (
                    [len(m) for m in members], k, [len(n) for n in nals[k:k + len(members)]]))
            k += len(members)
            i += 1
        else:
            if p != nals[k]:
                return ("h264/single-nal", "single NAL payload differs from NAL #%d" % k)
            k += 1
            i += 1
    if k != len(nals):
        return ("h264/nal-count", "%d of %d NAL units accounted for" % (k, len(nals)))
    return None


def _firstdiff(a, b):
    for i, (x, y) in enumerate(zip(a, b)):
        if x != y:
            return i
    return min(len(a), len(b))


def h264_task(task):
    kind, tier, shard, nshard = task
    thorough = tier == "thorough"
    T = Tally()
    i = -1

    def mine():
        nonlocal i
        i += 1
        return i % nshard == shard

    def run(sizes, hdrs, sc):
        nals = [nal(s, h, salt=j * 17) for j, (s, h) in enumerate(zip(sizes, hdrs))]
        T.case(("h264", tuple(sizes), tuple(hdrs), tuple(sc)))
        T.count("h264/" + kind)
        v = h264_case(nals, sc)
        if T.evaluations % 1499 == 1:
            T.sample(dict(family="h264/" + kind, nal_sizes=list(sizes), headers=[list(h) for h in hdrs], start_codes=list(sc)))
        if v:
            T.violation(v[0], v[0], v[1], dict(kind="h264", sizes=list(sizes), headers=[list(h) for h in hdrs], sc=list(sc)))

    if kind == "one":
        for s in SIZES + list(range(4, 40)) + list(range(1250, 1294)) + list(range(1304, 1400)) + [2 * 1298 + 1 + d for d in (-1, 0, 1, 2)] + \
                [k * 1298 + 1 + d for k in (3, 4, 10, 46) for d in (-1, 0, 1)]:
            for h in HEADERS:
                for sc in (3, 4):
                    if mine():
                        run([s], [h], [sc])
    elif kind == "two":
        sizes = SIZES if thorough else SIZES_SMALL + [60000]
        for s1 in sizes:
            for s2 in sizes:
                for hv in range(4 if thorough else 2):
                    for sc in itertools.product((3, 4), repeat=2):
                        if mine():
                            run([s1, s2], [HEADERS[(hv * 5) % 16], HEADERS[(hv * 7 + 3) % 16]], sc)
        # aggregate size boundary: 1 + (2+l1) + (2+l2) around 1300
        for l1 in (2, 3, 100, 647, 648, 1290):
            for d in range(-4, 5):
                l2 = 1295 - l1 + d
                if l2 >= 2 and mine():
                    run([l1, l2], [HEADERS[1], HEADERS[14]], (4, 3))
    elif kind == "three":
        sizes = SIZES_SMALL if thorough else [2, 100, 649, 1297, 1298, 1300, 1301, 2597]
        for s in itertools.product(sizes, repeat=3):
            for hv in range(2):
                for sc in ((4, 4, 4), (3, 4, 3)) if not thorough else itertools.product((3, 4), repeat=3):
                    if mine():
                        run(list(s), [HEADERS[(hv + j * 3) % 16] for j in range(3)], sc)
        for l1 in (2, 100, 400):
            for l2 in (2, 100, 400):
                for d in range(-4, 5):
                    l3 = 1293 - l1 - l2 + d
                    if mine():
                        run([l1, l2, l3], [HEADERS[2], HEADERS[5], HEADERS[11]], (4, 4, 4))
    elif kind == "many":
        # runs of small NALs around the aggregation count limit, with a large one in between
        maxlen = 12 if thorough else 11
        for n in range(4, maxlen + 1):
            for combo in itertools.product((2, 140), repeat=n):
                if mine():
                    run(list(combo), [HEADERS[(j * 3) % 16] for j in range(n)], [4] * n)
        for n in range(1, 12):
            for big in (1301, 2597):
                for posn in range(n + 1):
                    if mine():
                        sizes = [30] * n
                        sizes.insert(posn, big)
                        run(sizes, [HEADERS[(j * 5) % 16] for j in range(n + 1)], [4] * (n + 1))
    return T


# ----------------------------------------------------------------------------- VP8
def vp8_case(length, picture_id):
    buf = bytes((i * 7 + 3) & 0xFF for i in range(length))
    enc = V.Vp8Encoder()
    enc.picture_id = picture_id
    try:
        payloads, ts = enc.pack(packet_of(buf))
    except Exception as e:
        return ("vp8/pack-raises", "%s: %s" % (type(e).__name__, e))
    if enc.picture_id != (picture_id + 1) % 32768:
        return ("vp8/picture-id-step", "picture id after %d is %d" % (picture_id, enc.picture_id))
    out = b""
    for j, p in enumerate(payloads):
        if len(p) > LIMIT:
            return ("vp8/payload-too-large", "payload of %d bytes for a %d byte frame" % (len(p), length))
        try:
            d, rest = V.VpxPayloadDescriptor.parse(p)
            if V.vp8_depayload(p) != rest:
                return ("vp8/depayload", "vp8_depayload differs from descriptor parse")
        except Exception as e:
            return ("vp8/parse-raises", "%s: %s" % (type(e).__name__, e))
        if d.partition_start != (1 if j == 0 else 0) or d.partition_id != 0:
            return ("vp8/partition-start", "packet %d of frame has S=%d PID=%d" % (j, d.partition_start, d.partition_id))
        if d.picture_id != picture_id:
            return ("vp8/picture-id", "packet carries picture id %r, frame has %d" % (d.picture_id, picture_id))
        if not rest:
            return ("vp8/empty-payload", "packet %d carries no data" % j)
        out += rest
    if out != buf:
        return ("vp8/bytes-differ", "frame of %d bytes recovered as %d bytes (first diff %d)" % (length, len(out), _firstdiff(out, buf)))
    return None


def vp8_task(task):
    lo, hi, pids = task
    T = Tally()
    for length in range(lo, hi):
        for pid in pids:
            T.case(("vp8", length, pid))
            T.count("vp8/frame")
            v = vp8_case(length, pid)
            if v:
                T.violation(v[0], v[0], v[1], dict(kind="vp8", length=length, picture_id=pid))
    T.sample(dict(family="vp8/frame", length=lo, picture_ids=list(pids)), limit=1)
    return T


def descr_task(task):
    s_values, pid_values, pic_lo, pic_hi = task
    T = Tally()
    n = 0
    tail = b"\x9d\x01\x2a"
    for pic in [None] + list(range(pic_lo, pic_hi)) if pic_lo == 0 else range(pic_lo, pic_hi):
        for s in s_values:
            for pid in pid_values:
                for tl0 in (None, 0, 255):
                    for tid in (None, (0, 0), (3, 1)):
                        for key in (None, 0, 31):
                            n += 1
                            d = V.VpxPayloadDescriptor(partition_start=s, partition_id=pid, picture_id=pic, tl0picidx=tl0,
                                                       tid=tid, keyidx=key)
                            try:
                                raw = bytes(d)
                                q, rest = V.VpxPayloadDescriptor.parse(raw + tail)
                                ok = (q.partition_start, q.partition_id, q.picture_id, q.tl0picidx, q.tid, q.keyidx) == \
                                     (s, pid, pic, tl0, tid, key) and rest == tail and bytes(q) == raw
                                detail = "parsed S=%r PID=%r pic=%r tl0=%r tid=%r key=%r rest=%r" % (
                                    q.partition_start, q.partition_id, q.picture_id, q.tl0picidx, q.tid, q.keyidx, rest)
                            except Exception as e:
                                ok = False
                                detail = "%s: %s" % (type(e).__name__, e)
                            if not ok:
                                T.violation("vp8/descriptor-roundtrip", "vp8/descriptor-roundtrip",
                                            "S=%r PID=%r pic=%r tl0=%r tid=%r key=%r -> %s" % (s, pid, pic, tl0, tid, key, detail),
                                            dict(kind="descr", s=s, pid=pid, pic=pic, tl0=tl0, tid=tid, key=key))
    T.case(None, n)
    T.count("vp8/descriptor", n)
    return T


# ----------------------------------------------------------------------------- entry points
def run(tier, seed):
    thorough = tier == "thorough"
    ns = 8
    total = pmap("props.c16", "h264_task", [(k, tier, s, ns) for k in ("one", "two", "three", "many") for s in range(ns)], seed=seed)
    pids = (0, 127, 128, 32767)
    vt = [(lo, min(lo + 100, 3001), pids) for lo in range(0, 3001, 100)]
    vt += [(3897, 3904, pids), (60000, 60001, pids), (1290, 1300, (5, 200)), (2590, 2600, (5, 200))]
    total.merge(pmap("props.c16", "vp8_task", vt, seed=seed))
    pidv = list(range(16)) if thorough else [0, 15]
    total.merge(pmap("props.c16", "descr_task", [((0, 1), pidv, lo, lo + 1024) for lo in range(0, 32768, 1024)], seed=seed))
    return result(
        PID, total,
        rule="H.264 (real H264Encoder.pack -> _split_bitstream -> _packetize -> h264_depayload): all single NALs over %d sizes x 16 "
             "headers (F, NRI, type) x 3/4-byte start codes; all pairs and triples over boundary sizes (2,3,100,649,650,1294..1303,"
             "2594..2600,3891..3896,60000) x header rotations x start-code combinations; aggregate-size boundaries 1300+-4; all "
             "sequences of 4..%d NALs over sizes {2,140} (aggregation count limit) and a large NAL at every position among 1..11 "
             "small ones. Oracle: every payload <= 1300, depayloaded concatenation == NALs with 4-byte start codes, FU-A runs have "
             "one S / one E and the original header bits, STAP-A members are whole NALs in order. VP8 (real Vp8Encoder.pack): every "
             "buffer length 0..3000, 3897..3903, 60000 x picture ids {0,127,128,32767}: size limit, S only on the first packet, "
             "picture id carried, bytes verbatim; descriptor bytes/parse over S x PID x ALL 2^15 picture ids (+None) x TL0PICIDX x "
             "TID x KEYIDX. distinct = distinct (sizes, headers, start codes) / (length, id) tuples"
             % (len(SIZES) + 36 + 44 + 96 + 16, 12 if thorough else 11),
        assumptions=["NAL bodies are a counter pattern without zero bytes (no emulated start codes, no trailing zero); real encoders "
                     "guarantee this through emulation prevention", "NAL sizes between the listed boundary values are not enumerated"])


def replay(rep):
    r = rep["replay"]
    if r["kind"] == "h264":
        nals = [nal(s, tuple(h), salt=j * 17) for j, (s, h) in enumerate(zip(r["sizes"], r["headers"]))]
        v = h264_case(nals, r["sc"])
    elif r["kind"] == "vp8":
        v = vp8_case(r["length"], r["picture_id"])
    else:
        d = V.VpxPayloadDescriptor(partition_start=r["s"], partition_id=r["pid"], picture_id=r["pic"], tl0picidx=r["tl0"],
                                   tid=tuple(r["tid"]) if r["tid"] else None, keyidx=r["key"])
        q, rest = V.VpxPayloadDescriptor.parse(bytes(d))
        v = None if bytes(q) == bytes(d) and q.picture_id == r["pic"] else ("vp8/descriptor-roundtrip", repr(q))
    print(r)
    if v:
        print("FAILS clause=%s: %s" % v)
        return 1
    print("no violation")
    return 0
