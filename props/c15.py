"""C15 - receive-side bandwidth estimation never fails and stays within its safety bounds.

E-bfs as a complete depth-bounded tree: an alphabet symbol is a *phase* (a run of packets of one shape, or
an idle period); every sequence of phases up to the depth bound is fed to the real
`RemoteBitrateEstimator` (deep copy per tree node), and the oracle is evaluated after EVERY packet.
"""
import copy
import math

from aiortc import rate as RT
from aiortc.rtp import pack_remb_fci, unpack_remb_fci
from vt.enumcheck import Tally, pmap, result

PID = "C15"
SSRC_A, SSRC_B = 1111, 2222
N = 50      # packets per phase

# name -> (kind, arrival gap ms, send gap ms, payload size, ssrc)
PHASES = [
    ("steady-1200", ("pkts", 20, 20, 1200, SSRC_A)),
    ("steady-100", ("pkts", 20, 20, 100, SSRC_A)),
    ("steady-0", ("pkts", 20, 20, 0, SSRC_A)),
    ("burst-0ms", ("pkts", 0, 0, 1200, SSRC_A)),
    ("burst-1ms", ("pkts", 1, 1, 1200, SSRC_A)),
    ("congest-1200", ("pkts", 22, 20, 1200, SSRC_A)),
    ("congest-100", ("pkts", 22, 20, 100, SSRC_A)),
    ("congest-0", ("pkts", 22, 20, 0, SSRC_A)),
    ("drain-1200", ("pkts", 18, 20, 1200, SSRC_A)),
    ("slow-1200", ("pkts", 200, 200, 1200, SSRC_A)),
    ("slow-0", ("pkts", 200, 200, 0, SSRC_A)),
    ("idle-1500", ("idle", 1500, 1500, 0, None)),
    ("idle-5000", ("idle", 5000, 5000, 0, None)),
    ("steady-ssrc-b", ("pkts", 20, 20, 1500, SSRC_B)),
]
# not part of the big trees (it would multiply them): 300 packets, each from an SSRC never seen before
FLOOD = ("ssrc-flood", ("flood", 20, 20, 1200, None))
NAMES = [n for n, _ in PHASES]
PH = dict(PHASES + [FLOOD])
REDUCED = ["steady-1200", "steady-0", "congest-1200", "congest-100", "congest-0", "drain-1200", "slow-0", "idle-1500"]


class Ref:
    """Harness-side knowledge: arrivals (time, size) for the reference measurement, SSRCs, previous estimate."""
    __slots__ = ("now", "send", "window", "run_start", "ssrcs", "prev", "latest_R", "packets", "latest_upd")

    def __init__(self, send0):
        self.now = 1_000_000
        self.send = send0
        self.window = []          # (arrival ms, size) within the last 1000 ms
        self.run_start = None     # arrival time of the first packet of the current activity run
        self.ssrcs = []
        self.prev = None
        self.latest_R = None      # latest measurement at any packet
        self.latest_upd = None    # measurement that was current when the last estimate was produced
        self.packets = 0

    def clone(self):
        r = Ref(0)
        r.now, r.send, r.window, r.run_start = self.now, self.send, list(self.window), self.run_start
        r.ssrcs, r.prev, r.latest_R, r.packets = list(self.ssrcs), self.prev, self.latest_R, self.packets
        r.latest_upd = self.latest_upd
        return r

    def arrive(self, size):
        """Reference measurements (bits per second) over exactly the packets of the last 1000 ms: the statement fixes the
        numerator (those packets) but not the averaging interval, so two conventions are accepted: the part of the window
        since the current activity run began, or the whole window.  Returns the set of acceptable values (None = no
        measurement: allowed while the interval is a single millisecond)."""
        now = self.now
        self.window = [(t, s) for (t, s) in self.window if t > now - 1000]
        if not self.window:
            self.run_start = now          # idle for a whole window (or first packet): a new activity run
        self.window.append((now, size))
        bits = 8000 * sum(s for _, s in self.window)
        origin = max(self.run_start, now - 999)
        active = now - origin + 1
        ok = {round(bits / 1000)}
        if active > 1:
            ok.add(round(bits / active))
        else:
            ok.add(None)
        return ok


def abs_send_time(send_ms):
    return int(round(send_ms * (1 << 18) / 1000.0)) & 0xFFFFFF


def feed(est, ref, name):
    """Feed one phase. Returns None or (clause, detail, packet index)."""
    kind, ga, gs, size, ssrc = PH[name]
    if kind == "idle":
        ref.now += ga
        ref.send += gs
        return None
    for i in range(N if kind == "pkts" else 300):
        if kind == "flood":
            ssrc = 500000 + ref.packets
        ref.now += ga
        ref.send += gs
        ref.packets += 1
        if ssrc not in ref.ssrcs:
            ref.ssrcs.append(ssrc)
        okR = ref.arrive(size)
        try:
            out = est.add(arrival_time_ms=ref.now, abs_send_time=abs_send_time(ref.send), payload_size=size, ssrc=ssrc)
            measured = est.incoming_bitrate.rate(ref.now)
            overusing = est.detector.state() == RT.BandwidthUsage.OVERUSING
        except Exception as e:
            return ("estimator/raises", "%s: %s" % (type(e).__name__, e), i)
        if measured not in okR:
            return ("measurement/window", "measured incoming bitrate %r, reference over the packets of the last 1000 ms %r" % (
                measured, sorted(x for x in okR if x is not None)), i)
        if measured is not None:
            ref.latest_R = measured
        if out is None:
            continue
        if measured is not None:
            ref.latest_upd = measured
        try:
            bitrate, ssrcs = out
        except Exception:
            return ("estimate/shape", "add returned %r" % (out,), i)
        if isinstance(bitrate, bool) or not isinstance(bitrate, int) or bitrate < 0:
            return ("estimate/not-a-non-negative-int", "estimate %r" % (bitrate,), i)
        try:
            back, back_ssrcs = unpack_remb_fci(pack_remb_fci(bitrate, list(ssrcs)))
        except Exception as e:
            return ("estimate/remb-encode", "%s: %s for estimate %r" % (type(e).__name__, e, bitrate), i)
        if back > bitrate or (bitrate - back) * (1 << 17) > bitrate or back_ssrcs != list(ssrcs):
            return ("estimate/remb-roundtrip", "estimate %d encodes to %d" % (bitrate, back), i)
        if len(ref.ssrcs) <= 255:
            if sorted(ssrcs) != sorted(ref.ssrcs) or len(set(ssrcs)) != len(ssrcs):
                return ("estimate/ssrcs", "estimate lists %r, seen %r" % (ssrcs, ref.ssrcs), i)
        elif not set(ssrcs) <= set(ref.ssrcs) or len(set(ssrcs)) != len(ssrcs) or len(ssrcs) != 255 or ssrc not in ssrcs:
            # REMB can name 255 sources at most: then a duplicate-free selection of the sources seen, the current one included
            return ("estimate/ssrcs", "%d SSRCs seen, estimate lists %d (%d distinct), current source listed: %s" % (
                len(ref.ssrcs), len(ssrcs), len(set(ssrcs)), ssrc in ssrcs), i)
        # "the latest measured incoming bitrate": the latest at any packet, or the one current at the latest estimate -
        # the bound is demanded against the larger of the two readings
        cands = [x for x in (ref.latest_R, ref.latest_upd) if x is not None]
        if cands:
            Rm = max(cands)
            cap = 1.5 * Rm + 10000
            if bitrate > cap + 1 and (ref.prev is None or bitrate > ref.prev):
                return ("estimate/rises-above-bound", "estimate %d (previous %r) above 1.5 x %d + 10000" % (bitrate, ref.prev, Rm), i)
            if overusing and bitrate > 0.85 * Rm + 1:
                return ("estimate/overuse-cut", "over-use detected, estimate %d > 85%% of measured %d" % (bitrate, Rm), i)
        ref.prev = bitrate
    return None


def clone_estimator(est):
    """deepcopy, with the 1000-bucket rate window copied by a fast path (falls back to plain deepcopy)."""
    memo = {}
    try:
        buckets = est.incoming_bitrate._buckets
        B = type(buckets[0])
        memo[id(buckets)] = [B(b.count, b.value) for b in buckets]
    except Exception:
        memo = {}
    return copy.deepcopy(est, memo)


def tree(task):
    depth, send0, firsts, names = task
    T = Tally()
    nodes = 0
    packets = 0
    estimates = set()
    hist = []

    def rec(est, ref, d):
        nonlocal nodes, packets
        for name in (names if d > 0 else firsts):
            e2 = clone_estimator(est)
            r2 = ref.clone()
            hist.append(name)
            nodes += 1
            v = feed(e2, r2, name)
            packets += N if PH[name][0] == "pkts" else 0
            if v:
                clause, detail, idx = v
                T.violation(clause, clause, "%s [send clock origin %d ms, phases %r, packet #%d of the last phase]" % (detail, send0, list(hist), idx),
                            dict(kind="phases", send0=send0, phases=list(hist)))
            else:
                estimates.add((r2.prev, r2.latest_R, e2.detector.state().value, e2.rate_control.state.value))
                if d + 1 < depth:
                    rec(e2, r2, d + 1)
            hist.pop()

    rec(RT.RemoteBitrateEstimator(), Ref(send0), 0)
    T.evaluations = nodes
    T.transitions = packets
    T.distinct = len(estimates)
    T.count("phase-tree-nodes", nodes)
    T.count("packets", packets)
    T.sample(dict(kind="phase-sequence", send_clock_origin_ms=send0, first=firsts, depth=depth,
                  phase_shapes={n: list(PH[n][1:4]) for n in names[:3]}), limit=1)
    return T


def run(tier, seed):
    thorough = tier == "thorough"
    depth = 5 if thorough else 4
    tasks = []
    for send0 in (0, 63_500):            # the second origin puts the 24-bit abs-send-time wrap inside the first phase
        for f in NAMES:
            if send0 and not thorough and f not in REDUCED:
                continue
            tasks.append((depth, send0, [f], NAMES))
    # "any number of SSRCs": short sequences around a flood of 300 new SSRCs
    small = ["steady-1200", "congest-1200", "ssrc-flood", "idle-1500"]
    for f in small:
        tasks.append((3, 0, [f], small))
    # one level deeper over the shapes that involve zero-size payloads, congestion, draining and idling
    for f in REDUCED:
        tasks.append((depth + 1 if not thorough else 6, 0, [f], REDUCED))
    total = pmap("props.c15", "tree", tasks, seed=seed)
    return result(
        PID, total,
        rule="complete tree of phase sequences: depth %d over 14 phase shapes (50 packets each: steady 20 ms x sizes {1200,100,0}; "
             "bursts with 0 / 1 ms gaps; send-time lag growing 2 ms per packet x sizes {1200,100,0}; lag shrinking; 200 ms gaps x "
             "{1200,0}; idle 1500 / 5000 ms; a second SSRC) from send-clock origins {0, 63.5 s (24-bit abs-send-time wrap inside)}, "
             "plus depth %d over the 8 shapes with zero sizes / congestion / idling, plus all sequences of length <= 3 over {steady, congesting, a flood of 300 packets from 300 new SSRCs, idle}; real RemoteBitrateEstimator deep-copied per "
             "node; after EVERY packet: no exception, measured incoming bitrate == reference over exactly the packets of the last "
             "1000 ms, estimate is a non-negative int that REMB encodes within 2^-17, SSRC list == SSRCs seen, estimate does not rise "
             "above 1.5 x latest measurement + 10000, and <= 85%% of it when the detector reports over-use. states = distinct "
             "(estimate, measurement, detector, rate-control state) at tree nodes" % (depth, depth + 1 if not thorough else 6),
        assumptions=["floating-point state makes merging unsound: complete tree, no deduplication",
                     "the over-use premise is read from the real detector's hypothesis"],
        states=None)


def replay(rep):
    r = rep["replay"]
    est, ref = RT.RemoteBitrateEstimator(), Ref(r["send0"])
    for name in r["phases"]:
        v = feed(est, ref, name)
        print("%-14s now=%d latest measurement=%r estimate=%r detector=%s" % (name, ref.now, ref.latest_R, ref.prev, est.detector.state().name))
        if v:
            print("FAILS clause=%s: %s (packet #%d)" % v)
            return 1
    print("no violation")
    return 0
