"""C11 - video frames reach the decoder unspliced; lost packets are recovered by NACK/RTX.

E-sched: a real RTCRtpSender (VP8 / H.264, a harness track feeding pre-encoded frames of 1-8 packets) and
a real RTCRtpReceiver joined through two real RTCDtlsTransport objects (real router, real RTP/RTCP
parsing; SRTP sessions replaced by identity so that no handshake is needed per execution - the crypto
path is C04's) on the virtual loop, with the harness owning the network in both directions.  All
executions with at most k deviations are explored; the decoder input is tapped at the receiver's decoder
queue.
"""
import asyncio
import datetime
import fractions
import hashlib
import struct
import types

import av

import aiortc.clock as CLK
import aiortc.rtcdtlstransport as D
import aiortc.rtcrtpreceiver as RX
import aiortc.rtcrtpsender as TX
from aiortc import rtp as R
from aiortc.mediastreams import MediaStreamTrack
from aiortc.rtcrtpparameters import (RTCRtcpFeedback, RTCRtcpParameters, RTCRtpCodecParameters, RTCRtpDecodingParameters,
                                     RTCRtpEncodingParameters, RTCRtpHeaderExtensionParameters, RTCRtpReceiveParameters,
                                     RTCRtpRtxParameters, RTCRtpSendParameters)
from vt.loop import VLoop, VClock, HarnessError
from vt.sched_check import run_sched, replay_sched

PID = "C11"
_SAVED = {}


class Identity:
    def protect(self, data):
        return data

    protect_rtcp = unprotect = unprotect_rtcp = protect


class Ice:
    def __init__(self, world, name):
        self.world = world
        self.name = name
        self.role = "controlling" if name == "S" else "controlled"
        self.state = "completed"

    async def _send(self, data):
        self.world._wire_send(self.name, data)

    async def _recv(self):
        await asyncio.get_event_loop().create_future()


class FrameTrack(MediaStreamTrack):
    kind = "video"

    def __init__(self):
        super().__init__()
        self.q = asyncio.Queue()

    async def recv(self):
        return await self.q.get()


class _NoThread:
    def __init__(self, *a, **kw):
        pass

    def start(self):
        pass

    def join(self, *a):
        pass


class _Random:
    @staticmethod
    def random():
        return 0.5


_CERT = None


def frame_bytes(codec, idx, npackets):
    """A pre-encoded frame that packetises into exactly `npackets` RTP payloads and names its index."""
    tag = b"FRAME%03d|" % idx
    if codec == "VP8":
        n = (npackets - 1) * 1296 + 400
        body = (tag * (n // len(tag) + 1))[:n]
        return bytes(body)
    # H.264: one NAL unit (type 5/1) fragmented into FU-A packets, or a single NAL for one packet
    n = 600 if npackets == 1 else (npackets - 1) * 1298 + 700
    body = bytes(((b % 251) + 1) for b in (tag * (n // len(tag) + 1))[:n - 1])
    return b"\x00\x00\x00\x01" + bytes([0x65 if idx % 4 == 0 else 0x41]) + body


class Datagram:
    __slots__ = ("seq", "src", "data", "dup", "first_tx")

    def __init__(self, seq, src, data, first_tx=False, dup=False):
        self.seq, self.src, self.data, self.dup, self.first_tx = seq, src, data, dup, first_tx


class RtpWorld:
    """spec: codec VP8|H264, rtx bool, seq0, ts0, frames [packet counts], mode 'any'|'recovery', trail int"""

    def __init__(self, spec):
        global _CERT
        self.spec = spec
        self.loop = VLoop().install()
        self.clock = VClock(self.loop)
        for mod, names in ((TX, ("time", "random", "random_sequence_number", "random32", "random16")), (RX, ("time", "random", "threading")),
                           (CLK, ("current_datetime",))):
            for n in names:
                _SAVED.setdefault((mod, n), getattr(mod, n))
        TX.time = RX.time = self.clock
        TX.random = RX.random = _Random
        RX.threading = types.SimpleNamespace(Thread=_NoThread)
        seq0, ts0 = spec.get("seq0", 100), spec.get("ts0", 0)
        TX.random_sequence_number = lambda: seq0
        r32 = iter([0x51515151, 0x52525252, ts0])
        TX.random32 = lambda: next(r32, 0x77777777)
        TX.random16 = lambda: 1234
        import aiortc.codecs.vpx as VPX
        _SAVED.setdefault((VPX, "random"), VPX.random)
        self.picture_id0 = spec.get("picture_id0", 32766)       # the 15-bit picture id wraps inside the run
        VPX.random = types.SimpleNamespace(randint=lambda a, b: self.picture_id0)
        base = datetime.datetime(2026, 1, 1, tzinfo=datetime.timezone.utc)
        CLK.current_datetime = lambda: base + datetime.timedelta(seconds=self.loop.time())
        if _CERT is None:
            _CERT = D.RTCCertificate.generateCertificate()
        self.codec = spec.get("codec", "VP8")
        self.wire = []
        self.wire_seq = 0
        self.point = 0
        self.log = []
        self.sent_frames = []            # (index, bytes)
        self.tapped = []                 # (frame index or None, kind 'whole'|'tail'|'bad', mapped timestamp)
        self.tap_pos = 0
        self.pli_since_tap = False
        self.seen_media = set()          # (ssrc, seq) of media packets already seen on the wire
        self.send_order = []             # sequence numbers of first transmissions, in sending order
        self.frame_of_seq = {}
        self.first_received = None       # position in send_order of the first media packet the receiver ever saw
        self.dropped_first = []          # sequence numbers of dropped first transmissions
        self.outage_left = 0             # first transmissions still to be swallowed by the outage in progress
        self.outage_used = False
        self.nacked = set()
        self.retransmitted = []          # (seq, was_rtx)
        self.violations = []
        self.last_fault_time = 0.0
        self.faults_enabled = True
        self.stalled = False
        self.ice = {n: Ice(self, n) for n in "SR"}
        self.dtls = {}
        for n in "SR":
            t = D.RTCDtlsTransport(self.ice[n], [_CERT])
            t._state = D.State.CONNECTED
            t._rx_srtp = t._tx_srtp = Identity()
            self.dtls[n] = t
        self.track = FrameTrack()
        self.sender = TX.RTCRtpSender(self.track, self.dtls["S"])
        self.receiver = RX.RTCRtpReceiver("video", self.dtls["R"])
        self.receiver._track = RX.RemoteStreamTrack(kind="video")
        self.receiver._set_rtcp_ssrc(0x0BADF00D)
        mime = "video/VP8" if self.codec == "VP8" else "video/H264"
        fb = [RTCRtcpFeedback(type="nack"), RTCRtcpFeedback(type="nack", parameter="pli")]
        codecs = [RTCRtpCodecParameters(mimeType=mime, clockRate=90000, payloadType=96, rtcpFeedback=fb,
                                        parameters={} if self.codec == "VP8" else {"packetization-mode": "1", "profile-level-id": "42e01f"})]
        rtx = None
        if spec.get("rtx"):
            codecs.append(RTCRtpCodecParameters(mimeType="video/rtx", clockRate=90000, payloadType=97, parameters={"apt": 96}))
            rtx = RTCRtpRtxParameters(ssrc=self.sender._rtx_ssrc)
        ext = [RTCRtpHeaderExtensionParameters(id=1, uri="urn:ietf:params:rtp-hdrext:sdes:mid"),
               RTCRtpHeaderExtensionParameters(id=2, uri="http://www.webrtc.org/experiments/rtp-hdrext/abs-send-time")]
        self.loop.run_until(self.receiver.receive(RTCRtpReceiveParameters(
            codecs=codecs, headerExtensions=ext, muxId="0",
            encodings=[RTCRtpDecodingParameters(ssrc=self.sender._ssrc, payloadType=96, rtx=rtx)])))
        self.loop.run_until(self.sender.send(RTCRtpSendParameters(
            codecs=codecs, headerExtensions=ext, muxId="0", rtcp=RTCRtcpParameters(cname="cname", ssrc=self.sender._ssrc),
            encodings=[RTCRtpEncodingParameters(ssrc=self.sender._ssrc, payloadType=96, rtx=rtx)])))
        self.loop.drain()
        self.script = list(spec["frames"])
        self.script_pos = 0
        self.trail = spec.get("trail", 0)
        self.horizon = spec.get("horizon", 4.0)
        self.max_points = spec.get("max_points", 400)

    # ---------------------------------------------------------------- wire
    def _wire_send(self, src, data):
        self.wire_seq += 1
        first = False
        if src == "S" and not R.is_rtcp(data):
            pt, seq = data[1] & 0x7F, struct.unpack("!H", data[2:4])[0]
            ssrc = struct.unpack("!L", data[8:12])[0]
            if pt == 96 and ssrc == self.sender._ssrc:
                if (ssrc, seq) not in self.seen_media:
                    self.seen_media.add((ssrc, seq))
                    self.send_order.append(seq)
                    self.frame_of_seq[seq] = len(self.sent_frames) - 1
                    first = True
                else:
                    self.retransmitted.append((seq, False))
            elif pt == 97:
                hdr = 12 + 4 * (data[0] & 0x0F)
                if data[0] & 0x10:
                    xlen = struct.unpack("!H", data[hdr + 2:hdr + 4])[0]
                    hdr += 4 + 4 * xlen
                self.retransmitted.append((struct.unpack("!H", data[hdr:hdr + 2])[0], True))
        elif src == "R":
            try:
                for p in R.RtcpPacket.parse(data):
                    if isinstance(p, R.RtcpRtpfbPacket) and p.fmt == 1:
                        if len(p.lost) > 128:
                            self.violations.append(("nack/too-long", "a NACK lists %d sequence numbers" % len(p.lost)))
                        self.nacked.update(p.lost)
                    elif isinstance(p, R.RtcpPsfbPacket) and p.fmt == 1:
                        self.pli_since_tap = True
            except Exception as e:
                self.violations.append(("rtcp/unparsable", "receiver emitted RTCP that does not parse: %s" % e))
        if first and self.outage_left > 0:
            # a network outage in progress (one deviation): this first transmission is lost as well
            self.outage_left -= 1
            self.dropped_first.append(struct.unpack("!H", data[2:4])[0])
            return
        self.wire.append(Datagram(self.wire_seq, src, data, first_tx=first))

    def _deliver(self, dg):
        dst = "R" if dg.src == "S" else "S"
        t = self.dtls[dst]
        if R.is_rtcp(dg.data):
            self.loop.create_task(t._handle_rtcp_data(dg.data))
        else:
            if dst == "R" and self.first_received is None and (dg.data[1] & 0x7F) == 96:
                seq = struct.unpack("!H", dg.data[2:4])[0]
                if seq in self.send_order:
                    self.first_received = self.send_order.index(seq)
            self.loop.create_task(t._handle_rtp_data(dg.data, arrival_time_ms=int(self.loop.time() * 1000)))
        self.loop.drain()

    # ---------------------------------------------------------------- script
    def _next_frame(self):
        idx = self.script_pos
        n = self.script[idx]
        self.script_pos += 1
        buf = frame_bytes(self.codec, idx, n)
        self.sent_frames.append((idx, buf))
        p = av.Packet(buf)
        p.pts = idx * 3000
        p.time_base = fractions.Fraction(1, 90000)
        self.track.q.put_nowait(p)
        self.loop.drain()

    # ---------------------------------------------------------------- menu
    def menu(self):
        if self.point >= self.max_points:
            self.stalled = True
            return []
        wire = self.wire
        script_ready = self.script_pos < len(self.script)
        tw = self.loop.next_timer_when()
        timer_ok = tw is not None and (tw - self.last_fault_time) <= self.horizon
        ev = []
        if wire:
            ev.append(("deliver", 0, ("deliver", wire[0].seq)))
        elif script_ready:
            ev.append(("frame", 0, ("frame",)))
        elif self.trail:
            ev.append(("trail-frame", 0, ("trail",)))
        elif timer_ok:
            ev.append(("timer", 0, ("timer",)))
        else:
            return []
        if not self.faults_enabled:
            return ev
        recovery = self.spec.get("mode") == "recovery"
        for d in "SR":
            q = [dg for dg in wire if dg.src == d]
            if not q:
                continue
            if recovery and d == "R":
                continue                     # retransmission requests get through
            head = q[0]
            faultable = (not recovery) or head.first_tx
            if head is not wire[0] and faultable:
                ev.append(("deliver-head:" + d, 1, ("deliver", head.seq)))
            if faultable:
                ev.append(("drop:" + d, 1, ("drop", head.seq)))
                if recovery and self.spec.get("burst") and not self.outage_used:
                    # ONE deviation: an outage that swallows this and the following first transmissions (a loss burst)
                    ev.append(("outage:" + d, 1, ("outage", head.seq)))
                if not head.dup:
                    ev.append(("dup:" + d, 1, ("dup", head.seq)))
            if len(q) >= 2 and (not recovery or q[1].first_tx):
                ev.append(("deliver-2nd:" + d, 1, ("deliver", q[1].seq)))
            if len(q) >= 3 and not recovery:
                ev.append(("deliver-3rd:" + d, 1, ("deliver", q[2].seq)))
        if wire and script_ready:
            ev.append(("frame-first", 1, ("frame",)))
        if wire and timer_ok and not recovery:
            ev.append(("timer-first", 1, ("timer",)))
        return ev

    def _find(self, seq):
        for dg in self.wire:
            if dg.seq == seq:
                return dg
        raise HarnessError("datagram %d not on wire" % seq)

    def describe(self, ev):
        name, cost, key = ev
        if key[0] in ("deliver", "drop", "dup"):
            dg = self._find(key[1])
            return "%s %s" % (name, describe(dg.data))
        if key[0] == "frame":
            return "%s #%d (%d packets)" % (name, self.script_pos, self.script[self.script_pos])
        return name

    def apply(self, ev):
        name, cost, key = ev
        self.point += 1
        if cost:
            self.last_fault_time = self.loop.time()
        k = key[0]
        if k == "deliver":
            dg = self._find(key[1])
            self.wire.remove(dg)
            self._deliver(dg)
        elif k == "drop":
            dg = self._find(key[1])
            self.wire.remove(dg)
            if dg.first_tx:
                self.dropped_first.append(struct.unpack("!H", dg.data[2:4])[0])
        elif k == "outage":
            self.outage_used = True
            self.outage_left = self.spec["burst"]
            for dg in [x for x in self.wire if x.src == "S" and x.first_tx]:
                if self.outage_left == 0:
                    break
                self.wire.remove(dg)
                self.outage_left -= 1
                self.dropped_first.append(struct.unpack("!H", dg.data[2:4])[0])
        elif k == "dup":
            dg = self._find(key[1])
            i = self.wire.index(dg)
            self.wire[i] = Datagram(dg.seq, dg.src, dg.data, first_tx=False, dup=True)
            self._deliver(dg)
        elif k == "frame":
            self._next_frame()
        elif k == "trail":
            # traffic continues: further frames, sent without faults
            if self.outage_left == 0:
                self.trail -= 1             # (frames swallowed by an outage still in progress do not count: traffic continues after it)
            self.script.append(2)
            self.faults_enabled = False
            self._next_frame()
        elif k == "timer":
            self.loop.fire_next_timer()
        self._collect_taps()

    # ---------------------------------------------------------------- observation
    def _collect_taps(self):
        q = self.receiver._RTCRtpReceiver__decoder_queue.queue
        while self.tap_pos < len(q):
            item = q[self.tap_pos]
            self.tap_pos += 1
            if item is None:
                continue
            codec, frame = item
            data = bytes(frame.data)
            kind, idx = self._classify(data)
            first = not self.tapped
            if kind == "bad":
                self.violations.append(("frame/spliced-or-holed", "decoder got %d bytes that are no frame the sender packetised (starts %r)" % (
                    len(data), data[:24])))
            elif kind == "tail" and not (first or self.pli_since_tap):
                self.violations.append(("frame/unexpected-tail", "decoder got the tail of frame #%d although nothing had been discarded" % idx))
            if idx is not None:
                prev = [t[0] for t in self.tapped if t[0] is not None]
                if prev and idx <= prev[-1]:
                    self.violations.append(("frame/order", "frame #%d handed to the decoder after frame #%d" % (idx, prev[-1])))
                base = next((t for t in self.tapped if t[0] is not None), None)
                if base is not None and frame.timestamp - base[2] != 3000 * (idx - base[0]):
                    self.violations.append(("frame/timestamp", "frame #%d mapped to timestamp %d, frame #%d to %d" % (
                        idx, frame.timestamp, base[0], base[2])))
            self.tapped.append((idx, kind, frame.timestamp))
            self.log.append(("tap", idx, kind, self.point))
            self.pli_since_tap = False

    def _classify(self, data):
        if self.codec == "VP8":
            for idx, buf in self.sent_frames:
                if data == buf:
                    return "whole", idx
            for idx, buf in self.sent_frames:
                # payload bytes per packet: 1300 minus the descriptor (3 bytes with a 7-bit picture id, 4 with a 15-bit one)
                per = 1296 if (self.picture_id0 + idx) % 32768 >= 128 else 1297
                for k in range(1, (len(buf) + per - 1) // per):
                    if data == buf[k * per:]:
                        return "tail", idx
            return "bad", None
        for idx, buf in self.sent_frames:
            want = buf if buf.startswith(b"\x00\x00\x00\x01") else b"\x00\x00\x00\x01" + buf
            if data == want:
                return "whole", idx
            body = buf[5:]
            for k in range(1, (len(body) + 1297) // 1298 + 1):
                # fragment boundaries of the real packetiser are computed by it; accept any suffix that starts at one of them
                pass
        # H.264 tails: the depayloaded non-first FU-A fragments carry no start code: a suffix of some frame body
        for idx, buf in self.sent_frames:
            if len(data) < len(buf) and buf.endswith(data) and len(data) > 0:
                return "tail", idx
        return "bad", None

    def canon(self):
        h = hashlib.blake2b(digest_size=8)
        jb = self.receiver._RTCRtpReceiver__jitter_buffer
        h.update(repr((jb._origin, [p.sequence_number if p else None for p in jb._packets if p is not None][:40])).encode())
        ng = self.receiver._RTCRtpReceiver__nack_generator
        h.update(repr((ng.max_seq, sorted(ng.missing))).encode())
        for dg in self.wire:
            h.update(dg.src.encode() + dg.data[:16])
        h.update(struct.pack("!iii", self.script_pos, len(self.tapped), len(self.retransmitted)))
        return h.digest()

    def trace_digest(self):
        return hashlib.blake2b(repr(self.log).encode(), digest_size=8).hexdigest()

    def close(self):
        try:
            for t in self.loop.pending_tasks():
                t.cancel()
            self.loop.drain()
            self.loop.dead_tasks()
        except Exception:
            pass
        for (mod, n), v in _SAVED.items():
            setattr(mod, n, v)
        self.loop.uninstall()


def describe(data):
    if R.is_rtcp(data):
        try:
            return "+".join(type(p).__name__.replace("Rtcp", "").replace("Packet", "") +
                            ("%r" % p.lost if isinstance(p, R.RtcpRtpfbPacket) else "") for p in R.RtcpPacket.parse(data))
        except Exception:
            return "rtcp?"
    return "RTP(pt=%d,seq=%d,m=%d,len=%d)" % (data[1] & 0x7F, struct.unpack("!H", data[2:4])[0], data[1] >> 7, len(data))


# ----------------------------------------------------------------------------- oracle
class Oracle:
    def point(self, w):
        out = list(w.violations)
        w.violations = []
        for t, e in w.loop.dead_tasks():
            out.append(("task-exception", "%s: %s: %s" % (getattr(t.get_coro(), "__qualname__", "?"), type(e).__name__, str(e)[:100])))
        return out

    def terminal(self, w):
        out = self.point(w)
        if w.stalled:
            return out
        if w.spec.get("mode") == "recovery":
            total = len(w.sent_frames)
            tapped = [t[0] for t in w.tapped if t[1] == "whole"]
            # the stream starts, for the receiver, with the first packet it ever sees: packets sent before that one cannot be
            # missed by anybody (no gap is visible), so frames containing them are exempt, as are those lost packets
            start = w.first_received if w.first_received is not None else len(w.send_order)
            early = set(w.send_order[:start])
            exempt_frames = {w.frame_of_seq[q] for q in early}
            want = [i for i in range(total - 1) if i not in exempt_frames]   # the very last frame still waits for its successor
            missing = [i for i in want if i not in tapped]
            dupl = sorted({i for i in tapped if tapped.count(i) > 1})
            if missing:
                out.append(("recovery/frame-not-delivered", "frames %r never reached the decoder whole (dropped first transmissions: %r, "
                            "NACKed: %r, retransmitted: %r)" % (missing, w.dropped_first, sorted(w.nacked)[:10], w.retransmitted[:10])))
            if dupl:
                out.append(("recovery/frame-twice", "frames %r reached the decoder twice" % dupl))
            for seq in w.dropped_first:
                if seq in early:
                    continue
                if seq not in w.nacked:
                    out.append(("recovery/not-requested", "lost packet %d was never listed in a NACK" % seq))
                elif not any(s == seq for s, _ in w.retransmitted):
                    out.append(("recovery/not-resent", "NACKed packet %d was not retransmitted" % seq))
                else:
                    via_rtx = [x for s, x in w.retransmitted if s == seq]
                    if w.spec.get("rtx") and not all(via_rtx):
                        out.append(("recovery/not-as-rtx", "packet %d was resent verbatim although RTX is negotiated" % seq))
                    if not w.spec.get("rtx") and any(via_rtx):
                        out.append(("recovery/rtx-not-negotiated", "packet %d was resent as RTX although RTX is not negotiated" % seq))
        return out


def signature(clause, detail, r):
    return clause


# ----------------------------------------------------------------------------- scenarios
def scenarios():
    S = {}
    for codec in ("VP8", "H264"):
        for rtx in (True, False):
            for (seq0, ts0) in ((100, 0), (65530, 2 ** 32 - 3000)):
                base = dict(codec=codec, rtx=rtx, seq0=seq0, ts0=ts0)
                tag = "%s/%s/%s" % (codec, "rtx" if rtx else "nortx", "wrap" if seq0 > 1000 else "low")
                S["any/" + tag] = dict(base, mode="any", frames=[1, 3, 2, 1], trail=0, horizon=3.0)
                S["rec/" + tag] = dict(base, mode="recovery", frames=[2, 3, 1, 8, 1], trail=3, horizon=3.0)
                if seq0 > 1000:
                    # loss bursts: an outage of 17 / 33 consecutive first transmissions is ONE deviation (a NACK entry covers a
                    # packet id and the 16 that follow)
                    S["burst17/" + tag] = dict(base, mode="recovery", frames=[2, 12, 8, 3, 1], trail=3, horizon=3.0, burst=17)
                    S["burst33/" + tag] = dict(base, mode="recovery", frames=[2, 12, 8, 9, 8, 3, 1], trail=3, horizon=3.0, burst=33)
    return S


SCEN = scenarios()


def scenario(name):
    spec = SCEN[name]
    return (lambda: RtpWorld(spec)), Oracle(), signature


def run(tier, seed):
    names = sorted(SCEN)
    if tier == "quick":
        sb = []
        for n in names:
            full = ("VP8/rtx/wrap" in n) or ("H264/nortx/low" in n) or ("VP8/nortx/wrap" in n)
            if n.startswith("burst"):
                if "VP8" in n:
                    sb.append((n, 1))
                continue
            sb.append((n, 2 if full else 1))
    else:
        sb = [(n, 3 if n.startswith("rec/") else 2) for n in names]
        sb = [(n, k if ("wrap" in n or "H264/rtx" in n) else min(k, 2)) for n, k in sb]
    return run_sched(
        "props.c11", PID, sb, seed,
        rule="real RTCRtpSender (VP8 and H.264, pre-encoded frames of 1-8 packets through the real pack()) -> real RTCDtlsTransport "
             "router -> real RTCRtpReceiver (real NACK generator, jitter buffer, RTX unwrapping, timestamp mapper), RTX negotiated or "
             "not, first sequence number 100 / 65530 and timestamp origin 0 / 2^32-3000; all executions with <= k deviations. 'any' "
             "scenarios: drop/dup/reorder on the media AND the RTCP path, frame or timer first: every buffer handed to the decoder is "
             "byte-identical to a sent frame (a tail only first or after a PLI), in sending order with consistent mapped timestamps, "
             "NACKs list <= 128 numbers, no task dies. 'rec' scenarios: faults only on first transmissions of media packets, "
             "feedback and retransmissions get through, 3 more frames follow: every lost packet is NACKed and resent (as RTX iff "
             "negotiated) and every frame reaches the decoder exactly once. 'burst17/33' scenarios: as 'rec' with longer frames and "
             "one more deviation kind, an outage that swallows 17 / 33 consecutive first transmissions",
        assumptions=["SRTP replaced by identity sessions (no handshake per execution; the crypto path is C04's)",
                     "decoder thread replaced by a no-op; decoder input tapped at the receiver's decoder queue",
                     "deviation bound k; fewer than 128 packets per scenario, so every lost packet is still in the sender's history"])


def replay(rep):
    return replay_sched(rep)
