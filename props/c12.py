"""C12 - bundled RTP/RTCP is routed to exactly the right receivers and senders.

E-bfs with an exact canonical state: breadth-first search over ALL reachable states of the real
`RtpRouter` for a small universe, to the fixpoint; every operation of the alphabet is applied in
every state and its result compared with a reference model (three plain dicts that implement the
property's sentences).  A second, shallow search drives the same operations through the real
`RTCDtlsTransport` registration functions and `_handle_rtp_data/_handle_rtcp_data` with serialised
packets, binding the router's answer to the callbacks actually invoked.
"""
import itertools

import aiortc.rtcdtlstransport as D
from aiortc import rtp as R
from aiortc.rtcrtpparameters import (RTCRtpCodecParameters, RTCRtpDecodingParameters,
                                     RTCRtpReceiveParameters, RTCRtpSendParameters)
from vt.enumcheck import Tally, pmap, result
from vt.loop import VLoop, HarnessError

PID = "C12"


class Named:
    def __init__(self, name):
        self.name = name

    def __repr__(self):
        return self.name


def subsets(xs):
    xs = list(xs)
    for n in range(len(xs) + 1):
        for c in itertools.combinations(xs, n):
            yield list(c)


class Universe:
    def __init__(self, nrecv, nsend, ssrcs, pts, extra_pt=98):
        self.recv = [Named("r%d" % (i + 1)) for i in range(nrecv)]
        self.send = [Named("s%d" % (i + 1)) for i in range(nsend)]
        self.ssrcs = list(ssrcs)
        self.pts = list(pts)
        self.byname = {x.name: x for x in self.recv + self.send}
        ops = []
        for r in self.recv:
            for S in subsets(self.ssrcs):
                for P in subsets(self.pts):
                    ops.append(("reg_recv", r.name, tuple(S), tuple(P)))
            ops.append(("unreg_recv", r.name))
        for s in self.send:
            for x in self.ssrcs:
                ops.append(("reg_send", s.name, x))
            ops.append(("unreg_send", s.name))
        for x in self.ssrcs:
            for pt in self.pts + [extra_pt]:
                ops.append(("rtp", x, pt))
        for x in self.ssrcs:
            for reps in subsets(self.ssrcs):
                ops.append(("sr", x, tuple(reps)))
        for reps in subsets(self.ssrcs):
            ops.append(("rr", tuple(reps)))
            ops.append(("bye", tuple(reps)))
            ops.append(("remb", tuple(reps)))
        for x in self.ssrcs:
            ops.append(("nack", x))
            ops.append(("pli", x))
            ops.append(("remb-media", x))     # REMB whose media_ssrc names a sender and whose list is empty
            for reps in subsets(self.ssrcs):
                if reps:
                    ops.append(("remb-media", x, tuple(reps)))     # ... and whose list names (further) senders
        ops.append(("sdes",))
        ops.append(("remb-bad",))
        self.ops = ops


def rinfo(ssrc):
    return R.RtcpReceiverInfo(ssrc=ssrc, fraction_lost=0, packets_lost=0, highest_sequence=0, jitter=0, lsr=0, dlsr=0)


def make_packet(op):
    k = op[0]
    if k == "rtp":
        return R.RtpPacket(payload_type=op[2], ssrc=op[1], sequence_number=1, payload=b"x")
    if k == "sr":
        return R.RtcpSrPacket(ssrc=op[1], sender_info=R.RtcpSenderInfo(1, 2, 3, 4), reports=[rinfo(x) for x in op[2]])
    if k == "rr":
        return R.RtcpRrPacket(ssrc=99, reports=[rinfo(x) for x in op[1]])
    if k == "bye":
        return R.RtcpByePacket(sources=list(op[1]))
    if k == "remb":
        return R.RtcpPsfbPacket(fmt=15, ssrc=99, media_ssrc=0, fci=R.pack_remb_fci(100000, list(op[1])))
    if k == "remb-media":
        return R.RtcpPsfbPacket(fmt=15, ssrc=99, media_ssrc=op[1], fci=R.pack_remb_fci(100000, list(op[2]) if len(op) > 2 else []))
    if k == "remb-bad":
        return R.RtcpPsfbPacket(fmt=15, ssrc=99, media_ssrc=0, fci=b"XXXX\x01\x00\x00\x00")
    if k == "nack":
        return R.RtcpRtpfbPacket(fmt=1, ssrc=99, media_ssrc=op[1], lost=[5])
    if k == "pli":
        return R.RtcpPsfbPacket(fmt=1, ssrc=99, media_ssrc=op[1])
    if k == "sdes":
        return R.RtcpSdesPacket(chunks=[R.RtcpSourceInfo(ssrc=1, items=[(1, b"c")])])
    raise KeyError(k)


# ----------------------------------------------------------------------------- reference model
class Model:
    """The property's sentences, literally."""

    def __init__(self):
        self.ssrc = {}       # ssrc -> receiver name (registered or latched)
        self.pt = {}         # payload type -> set of receiver names
        self.snd = {}        # ssrc -> sender name
        self.recv_registered = set()
        self.send_registered = set()

    def copy(self):
        m = Model()
        m.ssrc = dict(self.ssrc)
        m.pt = {k: set(v) for k, v in self.pt.items()}
        m.snd = dict(self.snd)
        m.recv_registered = set(self.recv_registered)
        m.send_registered = set(self.send_registered)
        return m

    def key(self):
        return (tuple(sorted(self.ssrc.items())), tuple(sorted((k, tuple(sorted(v))) for k, v in self.pt.items() if v)),
                tuple(sorted(self.snd.items())), tuple(sorted(self.recv_registered)), tuple(sorted(self.send_registered)))

    def apply(self, op):
        """Returns the expected answer: receiver name/None for rtp, frozenset of names for rtcp, None for others."""
        k = op[0]
        if k == "reg_recv":
            _, r, S, P = op
            self.recv_registered.add(r)
            for x in S:
                self.ssrc[x] = r
            for p in P:
                self.pt.setdefault(p, set()).add(r)
            return None
        if k == "unreg_recv":
            r = op[1]
            self.recv_registered.discard(r)
            self.ssrc = {x: v for x, v in self.ssrc.items() if v != r}
            for v in self.pt.values():
                v.discard(r)
            return None
        if k == "reg_send":
            self.send_registered.add(op[1])
            self.snd[op[2]] = op[1]
            return None
        if k == "unreg_send":
            self.send_registered.discard(op[1])
            self.snd = {x: v for x, v in self.snd.items() if v != op[1]}
            return None
        if k == "rtp":
            _, x, pt = op
            accept = self.pt.get(pt, set())
            owner = self.ssrc.get(x)
            if owner is not None:
                return owner if owner in accept else None
            if len(accept) == 1:
                (only,) = accept
                self.ssrc[x] = only          # the SSRC sticks to it from then on
                return only
            return None
        out = set()
        if k == "sr":
            if op[1] in self.ssrc:
                out.add(self.ssrc[op[1]])
            out |= {self.snd[x] for x in op[2] if x in self.snd}
        elif k == "rr":
            out |= {self.snd[x] for x in op[1] if x in self.snd}
        elif k == "bye":
            out |= {self.ssrc[x] for x in op[1] if x in self.ssrc}
        elif k == "remb":
            out |= {self.snd[x] for x in op[1] if x in self.snd}
        elif k in ("nack", "pli", "remb-media"):
            if op[1] in self.snd:
                out.add(self.snd[op[1]])
            if k == "remb-media" and len(op) > 2:
                out |= {self.snd[x] for x in op[2] if x in self.snd}
        return frozenset(out)


# ----------------------------------------------------------------------------- real router handling
def canon_value(v):
    if isinstance(v, Named):
        return v.name
    if isinstance(v, (set, frozenset)):
        return tuple(sorted(canon_value(x) for x in v))
    if isinstance(v, dict):
        return tuple(sorted((k, canon_value(x)) for k, x in v.items() if not (isinstance(x, (set, frozenset)) and not x)))
    if isinstance(v, (list, tuple)):
        return tuple(canon_value(x) for x in v)
    return v


def canon(router):
    return tuple(sorted((k, canon_value(v)) for k, v in vars(router).items()))


def clone(router):
    new = D.RtpRouter.__new__(D.RtpRouter)
    for k, v in vars(router).items():
        if isinstance(v, set):
            v = set(v)
        elif isinstance(v, dict):
            v = {a: (set(b) if isinstance(b, set) else b) for a, b in v.items()}
        elif isinstance(v, list):
            v = list(v)
        setattr(new, k, v)
    return new


def apply_real(U, router, op):
    k = op[0]
    if k == "reg_recv":
        router.register_receiver(U.byname[op[1]], ssrcs=list(op[2]), payload_types=list(op[3]))
        return None
    if k == "unreg_recv":
        router.unregister_receiver(U.byname[op[1]])
        return None
    if k == "reg_send":
        router.register_sender(U.byname[op[1]], ssrc=op[2])
        return None
    if k == "unreg_send":
        router.unregister_sender(U.byname[op[1]])
        return None
    if k == "rtp":
        r = router.route_rtp(make_packet(op))
        return None if r is None else r.name
    r = router.route_rtcp(make_packet(op))
    return frozenset(x.name for x in r)


def rebuild(U, hist):
    router, model = D.RtpRouter(), Model()
    for op in hist:
        apply_real(U, router, op)
        model.apply(op)
    return router, model


def expand_chunk(args):
    """Worker: expand every state (given by a history reaching it) of a chunk with the whole alphabet."""
    uspec, hists = args
    U = Universe(*uspec)
    T = Tally()
    succ = {}
    transitions = 0
    for hist in hists:
        router, model = rebuild(U, hist)
        for op in U.ops:
            r2 = clone(router)
            m2 = model.copy()
            try:
                got = apply_real(U, r2, op)
            except Exception as e:
                got = "raised %s: %s" % (type(e).__name__, e)
            want = m2.apply(op)
            transitions += 1
            if got != want:
                T.violation("route/%s" % op[0], "route/" + op[0],
                            "after %r, %r returned %r, reference model says %r" % (list(hist[-6:]), op, _fmt(got), _fmt(want)),
                            dict(kind="router", universe=uni_spec(U), history=[list(h) for h in hist], op=list(op)))
                continue
            # nothing is ever routed to something that is not currently registered
            names = set() if got is None else ({got} if isinstance(got, str) else set(got))
            if not names <= (m2.recv_registered | m2.send_registered):
                T.violation("route/unregistered", "route/unregistered", "%r returned %r" % (op, got),
                            dict(kind="router", universe=uni_spec(U), history=[list(h) for h in hist], op=list(op)))
            c = canon(r2)
            if c not in succ:
                succ[c] = hist + (op,)
    return succ, transitions, T


def bfs(uspec, T, pool, nworkers=16):
    """Level-synchronous BFS to the fixpoint. Returns (states, transitions, depth)."""
    seen = {canon(D.RtpRouter())}
    frontier = [()]
    depth = 0
    transitions = 0
    while frontier:
        n = max(1, min(len(frontier), nworkers * 4))
        chunks = [frontier[i::n] for i in range(n)]
        nxt = []
        for succ, tr, t in pool.imap_unordered(expand_chunk, [(uspec, c) for c in chunks]):
            transitions += tr
            T.merge(t)
            for c, hist in succ.items():
                if c not in seen:
                    seen.add(c)
                    nxt.append(hist)
                    if len(seen) % 5003 == 0:
                        T.sample(dict(kind="router-history", history=[list(h) for h in hist]))
        nxt.sort()
        frontier = nxt
        if nxt:
            depth += 1
    return len(seen), transitions, depth


def _fmt(x):
    return sorted(x) if isinstance(x, frozenset) else x


def uni_spec(U):
    return dict(nrecv=len(U.recv), nsend=len(U.send), ssrcs=U.ssrcs, pts=U.pts)


def bfs_universe(uspec, T, pool):
    nrecv, nsend, ssrcs, pts = uspec
    U = Universe(*uspec)
    states, transitions, depth = bfs(uspec, T, pool)
    T.count("router-states[%dr,%ds,%r,%r]" % (nrecv, nsend, ssrcs, pts), states)
    T.count("router-transitions", transitions)
    T.counters["bfs-depth-max"] = max(T.counters.get("bfs-depth-max", 0), depth)
    T.sample(dict(kind="universe", receivers=nrecv, senders=nsend, ssrcs=ssrcs, payload_types=pts, operations=len(U.ops),
                  reachable_states=states, fixpoint=True, bfs_depth=depth), limit=8)
    return states, transitions


# ----------------------------------------------------------------------------- through the transport
class FakeIce:
    role = "controlling"
    state = "completed"


class Endpoint(Named):
    def __init__(self, name, log, ssrc=None):
        super().__init__(name)
        self.log = log
        self._ssrc = ssrc

    async def _handle_rtp_packet(self, packet, arrival_time_ms):
        self.log.append((self.name, "rtp", packet.ssrc, packet.payload_type))

    on_rtcp = None

    async def _handle_rtcp_packet(self, packet):
        self.log.append((self.name, "rtcp", type(packet).__name__))
        if self.on_rtcp is not None:
            await self.on_rtcp()

    def _handle_disconnect(self):
        pass


_CERT = None


def transport_history(U, hist):
    """Replays hist on a fresh real RTCDtlsTransport; returns list of (got, want) for the last op."""
    global _CERT
    if _CERT is None:
        _CERT = D.RTCCertificate.generateCertificate()
    loop = VLoop().install()
    try:
        t = D.RTCDtlsTransport(FakeIce(), [_CERT])
        log = []
        ends = {}
        model = Model()
        out = []
        for op in hist:
            k = op[0]
            before = len(log)
            want = model.apply(op)
            if k == "reg_recv":
                e = ends.setdefault(op[1], Endpoint(op[1], log))
                params = RTCRtpReceiveParameters(
                    codecs=[RTCRtpCodecParameters(mimeType="video/VP8", clockRate=90000, payloadType=p) for p in op[3]],
                    encodings=[RTCRtpDecodingParameters(ssrc=x, payloadType=96) for x in op[2]])
                t._register_rtp_receiver(e, params)
            elif k == "unreg_recv":
                e = ends.setdefault(op[1], Endpoint(op[1], log))
                t._unregister_rtp_receiver(e)
            elif k == "reg_send":
                e = ends.setdefault(op[1], Endpoint(op[1], log))
                e._ssrc = op[2]
                t._register_rtp_sender(e, RTCRtpSendParameters())
            elif k == "unreg_send":
                e = ends.setdefault(op[1], Endpoint(op[1], log))
                t._unregister_rtp_sender(e)
            elif k == "rtp":
                loop.run_until(t._handle_rtp_data(make_packet(op).serialize(), arrival_time_ms=0))
                got = [x[0] for x in log[before:]]
                out.append((op, tuple(got), () if want is None else (want,)))
            else:
                loop.run_until(t._handle_rtcp_data(bytes(make_packet(op))))
                got = sorted(x[0] for x in log[before:])
                out.append((op, tuple(got), tuple(sorted(want))))
        return out
    finally:
        loop.uninstall()


def compound_family(T):
    """Compound RTCP datagrams [p1, p2] with p1 routed to one endpoint and p2 to another: the first endpoint's handler yields
    and, while it does, the second endpoint is unregistered - "once unregistered nothing is routed to it again, for any
    interleaving" - and the same with the handler merely yielding (then both are delivered)."""
    import asyncio
    global _CERT
    if _CERT is None:
        _CERT = D.RTCCertificate.generateCertificate()
    to_recv = [("sr", 1, ()), ("bye", (1,))]
    to_send = [("rr", (2,)), ("nack", 2), ("pli", 2), ("remb", (2,)), ("remb-media", 2), ("remb-media", 2, (2,))]
    n = 0
    for first_is_recv in (True, False):
        for a in (to_recv if first_is_recv else to_send):
            for b in (to_send if first_is_recv else to_recv):
                for unregister in (True, False):
                    n += 1
                    loop = VLoop().install()
                    try:
                        t = D.RTCDtlsTransport(FakeIce(), [_CERT])
                        log = []
                        r1, s1 = Endpoint("r1", log), Endpoint("s1", log, ssrc=2)
                        t._register_rtp_receiver(r1, RTCRtpReceiveParameters(
                            codecs=[RTCRtpCodecParameters(mimeType="video/VP8", clockRate=90000, payloadType=96)],
                            encodings=[RTCRtpDecodingParameters(ssrc=1, payloadType=96)]))
                        t._register_rtp_sender(s1, RTCRtpSendParameters())
                        e1, e2 = (r1, s1) if first_is_recv else (s1, r1)

                        async def hook(e2=e2):
                            await asyncio.sleep(0)
                            if unregister:
                                (t._unregister_rtp_sender if e2 is s1 else t._unregister_rtp_receiver)(e2)
                        e1.on_rtcp = hook
                        loop.run_until(t._handle_rtcp_data(bytes(make_packet(a)) + bytes(make_packet(b))))
                        got = [x[0] for x in log]
                        want = [e1.name] if unregister else [e1.name, e2.name]
                        if got != want:
                            T.violation("transport/compound/%s" % ("unregistered-meanwhile" if unregister else "plain"), "transport/compound",
                                        "compound [%r, %r], the handler of %s yields%s: handlers invoked on %r, expected %r" % (
                                            a, b, e1.name, " and " + e2.name + " is unregistered meanwhile" if unregister else "", got, want),
                                        dict(kind="compound", a=list(a), b=list(b)))
                    finally:
                        loop.uninstall()
    T.case(None, n)
    T.count("compound-datagrams-with-a-yielding-handler", n)


def transport_task(task):
    depth, shard, nshard = task
    U = Universe(2, 1, [1, 2], [96])
    # a reduced alphabet: registrations with non-empty sets, and every packet kind
    ops = [o for o in U.ops if not (o[0] == "reg_recv" and (not o[3]))]
    T = Tally()
    n = 0
    idx = -1
    for L in range(1, depth + 1):
        for hist in itertools.product(ops, repeat=L):
            if hist[-1][0] in ("reg_recv", "unreg_recv", "reg_send", "unreg_send"):
                continue            # histories ending in a packet are the ones that observe something
            idx += 1
            if idx % nshard != shard:
                continue
            n += 1
            for op, got, want in transport_history(U, hist)[-1:]:
                if got != want:
                    T.violation("transport/%s" % op[0], "transport/" + op[0],
                                "history %r: callbacks invoked on %r, reference model says %r" % ([list(h) for h in hist], got, want),
                                dict(kind="transport", history=[list(h) for h in hist]))
    T.case(None, n)
    T.transitions = n
    T.count("transport-histories", n)
    if shard == 0:
        T.sample(dict(kind="transport-history", depth=depth, example=[list(o) for o in ops[:3]]))
    return T


# ----------------------------------------------------------------------------- entry points
def run(tier, seed):
    thorough = tier == "thorough"
    if thorough:
        universes = [(2, 2, [1, 2, 3], [96, 97]), (3, 1, [1, 2, 3], [96, 97]), (3, 2, [1, 2], [96, 97]), (2, 2, [1, 2], [96, 97, 100])]
    else:
        universes = [(2, 2, [1, 2, 3], [96, 97]), (3, 1, [1, 2], [96]), (2, 1, [1, 2], [96, 97])]
    import multiprocessing as mp
    total = Tally()
    states = transitions = 0
    k = seed % len(universes)
    with mp.get_context("fork").Pool(16) as pool:
        for u in universes[k:] + universes[:k]:
            s_, t_ = bfs_universe(u, total, pool)
            states += s_
            transitions += t_
    total.evaluations = total.transitions = transitions
    total.distinct = states
    depth = 3
    ns = 16
    tt = pmap("props.c12", "transport_task", [(depth, s, ns) for s in range(ns)], seed=seed)
    total.merge(tt)
    compound_family(total)
    total.distinct = states + tt.distinct
    return result(
        PID, total,
        rule="explicit-state BFS to the FIXPOINT over the real RtpRouter for each universe (receivers x senders x SSRCs x payload "
             "types): canonical state = every attribute of the router (tables sorted, endpoints named), successors = the whole "
             "alphabet (register_receiver with every subset of SSRCs x every subset of payload types, unregister, register/"
             "unregister sender, RTP with every (ssrc, pt) incl. an unregistered pt, SR/RR/BYE/REMB with every SSRC subset, NACK, "
             "PLI, REMB by media ssrc with and without an SSRC list, SDES, malformed REMB) applied in EVERY reachable state and compared with a dict-based "
             "reference model on every transition; plus all histories of length <= %d ending in a packet through the real "
             "RTCDtlsTransport registration + _handle_rtp_data/_handle_rtcp_data with serialised packets (callbacks invoked vs "
             "model), and 48 compound datagrams whose first handler yields while the second packet's recipient is (or is not) unregistered. states = reachable canonical router states" % depth,
        assumptions=["universe bounded as listed; mid is not used for routing by the implementation and is left out"],
        states=states,
        extra=dict(universes=[dict(receivers=u[0], senders=u[1], ssrcs=u[2], payload_types=u[3]) for u in universes],
                   transport_histories=tt.evaluations))


def replay(rep):
    r = rep["replay"]
    u = r.get("universe", dict(nrecv=2, nsend=1, ssrcs=[1, 2], pts=[96]))
    U = Universe(u["nrecv"], u["nsend"], u["ssrcs"], u["pts"])

    def tup(o):
        return tuple(tuple(x) if isinstance(x, list) else x for x in o)
    if r["kind"] == "compound":
        T = Tally()
        compound_family(T)
        for v in T.violations.values() if isinstance(T.violations, dict) else T.violations:
            print("FAILS", v if isinstance(v, str) else v.get("detail", v))
        return 1 if T.violations else 0
    hist = [tup(o) for o in r["history"]]
    if r["kind"] == "router":
        router, model = D.RtpRouter(), Model()
        for op in hist + [tup(r["op"])]:
            got = apply_real(U, router, op)
            want = model.apply(op)
            print("%-60r real=%r model=%r" % (op, _fmt(got), _fmt(want)))
            if got != want:
                print("FAILS clause=route/%s" % op[0])
                return 1
    else:
        for op, got, want in transport_history(U, hist):
            print("%-60r callbacks=%r model=%r" % (op, got, want))
            if got != want:
                print("FAILS clause=transport/%s" % op[0])
                return 1
    print("no violation")
    return 0
