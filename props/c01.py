"""C01 - reliable channels deliver exactly once, intact, in order (E-sched; safety oracle evaluated at
every quiescent point of every explored execution)."""
from props import sctp_common as C
from vt.sched_check import run_sched, replay_sched

PID = "C01"
DRIVERS = C.drivers()
# three concurrently used channels (ordered DCEP, unordered negotiated, ordered negotiated), both roles sending
DRIVERS["D8"] = dict(
    setup="established",
    channels=[C.chan("p", creator="A"), C.chan("q", negotiated=8, ordered=False), C.chan("r", negotiated=9)],
    script=[[("send", "A", "q", C.pay("q", 0, 1300)), ("send", "B", "r", C.pay("rb", 0, 10)),
             ("send", "A", "r", C.pay("r", 0, 10, text=True)), ("send", "A", "p", C.pay("p", 0, 10)),
             ("send", "A", "q", C.pay("q", 1, 10)), ("send", "B", "r", C.pay("rb", 1, 1300, text=True)),
             ("send", "A", "p", "")]],
)
# one message of dozens of fragments, followed by small ones (str and bytes, empty ones)
DRIVERS["D9"] = dict(
    setup="settled",
    channels=[C.chan("big", negotiated=0)],
    script=[[("send", "A", "big", C.pay("big", 0, 24000)), ("send", "A", "big", b""),
             ("send", "A", "big", C.pay("big", 2, 30, text=True))]],
)
# unordered channel only: multi-fragment messages interleaved (the unordered reassembly path)
DRIVERS["D10"] = dict(
    setup="settled",
    channels=[C.chan("u", negotiated=3, ordered=False)],
    script=[[("send", "A", "u", C.pay("u", 0, 2500)), ("send", "A", "u", C.pay("u", 1, 10)),
             ("send", "A", "u", C.pay("u", 2, 2500, text=True)), ("send", "A", "u", "")]],
)
# a reliable channel next to a partially reliable one: abandoning messages there must not touch the reliable one
DRIVERS["D11"] = dict(
    setup="settled",
    channels=[C.chan("R", negotiated=0), C.chan("P", negotiated=1, maxRetransmits=0), C.chan("U", negotiated=2, ordered=False)],
    script=[[("send", "A", "R", C.pay("R", 0, 100)), ("send", "A", "P", C.pay("P", 0, 1300)),
             ("send", "A", "R", C.pay("R", 1, 100, text=True)), ("send", "A", "U", C.pay("U", 0, 100)),
             ("send", "A", "P", C.pay("P", 1, 100)), ("send", "A", "R", C.pay("R", 2, 1300))]],
)
# stream sequence numbers about to wrap (the state after 65534 messages on the channel)
DRIVERS["D12"] = dict(
    setup="settled", sseq={"w": 65534},
    channels=[C.chan("w", negotiated=0)],
    script=[[("send", "A", "w", C.pay("w", i, 100 if i != 1 else 1300)) for i in range(4)]],
)


def _reuse(world):
    """Out-of-band negotiation of a NEW channel on the stream id which channel `a` has freed (both ends at once, as
    applications do); only once both ends of `a` are closed."""
    a = world.channels.get("a")
    if a is None or len(a.ends) < 2 or any(ch.readyState != "closed" for ch in a.ends.values()):
        world.log.append(("reuse-skipped", world.point))
        return
    world._create("a2")
    for i in range(3):
        world._do_op(("send", "A", "a2", C.pay("a2", i, 60)))
    for i in range(2):
        world._do_op(("send", "B", "a2", C.pay("a2b", i, 60)))


# a channel is used in both directions and closed; a new channel then re-uses its stream id: its messages start again at
# stream sequence 0 on both sides and must be delivered in order whatever happens to its first datagrams
DRIVERS["D13"] = dict(
    setup="settled",
    channels=[C.chan("a", negotiated=2), C.chan("a2", negotiated=2, scripted=True), C.chan("k", negotiated=5)],
    script=[[("send", "A", "a", C.pay("a", 0, 60)), ("send", "A", "a", C.pay("a", 1, 60)), ("send", "B", "a", C.pay("ab", 0, 60)),
             ("close", "A", "a")],
            [("call", _reuse), ("send", "A", "k", C.pay("k", 0, 60))]],
)

# D2's traffic with both TSN spaces about to wrap (the initial TSN is random: this is what 1 connection in 2^30 starts with)
DRIVERS["D14"] = dict(DRIVERS["D2"], tsn={"A": 2 ** 32 - 2, "B": 2 ** 32 - 3})

# a reliable channel next to a lifetime-limited one used in the same instant (C06's P4): whatever happens to the timed
# channel's messages, the reliable one's are all delivered in order
from props import c06 as _c06     # noqa: E402
DRIVERS["D15"] = _c06.DRIVERS["P4"]


def scenario(name):
    return C.make_factory(DRIVERS[name]), C.SctpOracle(safety=True, liveness=False), C.default_signature


QUICK = [("D1", 2), ("D2", 2), ("D3", 2), ("D4", 2), ("D5", 2), ("D8", 1), ("D9", 1), ("D10", 2), ("D11", 2), ("D12", 2), ("D13", 2), ("D14", 2), ("D15", 2)]
THOROUGH = [("D1", 2), ("D2", 3), ("D3", 3), ("D4", 4), ("D5", 3), ("D8", 2), ("D9", 2), ("D10", 3), ("D11", 3), ("D12", 3), ("D13", 3), ("D14", 3), ("D15", 3)]


def run(tier, seed):
    sb = QUICK if tier == "quick" else THOROUGH
    return run_sched(
        "props.c01", PID, sb, seed,
        rule="all executions of each driver with at most k deviations (drop/dup/reorder per direction, timer first, "
             "operation first) from the default FIFO policy; oracle at every quiescent point: per reliable channel "
             "received is a prefix (ordered) / duplicate-free sub-multiset (unordered) of sent with equal value and "
             "type, channel-tagged payloads, no task died; distinct = canonical state digest",
        assumptions=["transport send never suspends", "deviation bound k",
                     "DTLS replaced by a stand-in exposing state/_send_data/_register_data_receiver"])


def replay(rep):
    return replay_sched(rep)
