"""C04 - DTLS connects only to the fingerprinted peer; both sides derive matching keys (E-enum).

Two real RTCDtlsTransport objects run the real OpenSSL handshake over in-memory queues on the virtual
loop.  Enumerated completely: fingerprint lists (all sequences up to a length bound over an alphabet of
correct / re-cased / corrupted / truncated / unsupported entries), the SRTP profile preference matrix
(every ordered non-empty list on each side x both role assignments), a battery of RTP / RTCP / data
messages each way, and EVERY single-bit flip of every protected battery packet.
"""
import asyncio
import hashlib
import itertools

import aiortc.rtcdtlstransport as D
from aiortc import rtp as R
from aiortc.rtcrtpparameters import RTCRtpCodecParameters, RTCRtpDecodingParameters, RTCRtpReceiveParameters, RTCRtpSendParameters
from cryptography.hazmat.primitives import hashes, serialization
from vt.enumcheck import Tally, pmap, result
from vt.loop import VLoop

PID = "C04"


class FakeIce:
    def __init__(self, role):
        self.role = role
        self.state = "completed"
        self.queue = asyncio.Queue()
        self.peer = None
        self.sent = []
        self.closed = False

    async def _recv(self):
        data = await self.queue.get()
        if data is None:
            raise ConnectionError("closed")
        return data

    async def _send(self, data):
        self.sent.append(data)
        if self.peer is not None and not self.peer.closed:
            self.peer.queue.put_nowait(data)

    async def stop(self):
        self.closed = True
        self.queue.put_nowait(None)


class Sink:
    """Receives whatever the transport hands over."""

    def __init__(self, ssrc=None):
        self.data = []
        self.rtp = []
        self.rtcp = []
        self._ssrc = ssrc

    async def _handle_data(self, data):
        self.data.append(bytes(data))

    async def _handle_rtp_packet(self, packet, arrival_time_ms):
        self.rtp.append(packet)

    async def _handle_rtcp_packet(self, packet):
        self.rtcp.append(packet)

    def _handle_disconnect(self):
        pass

    def total(self):
        return len(self.data) + len(self.rtp) + len(self.rtcp)


_CERTS = {}


def certs():
    if not _CERTS:
        _CERTS["A"] = D.RTCCertificate.generateCertificate()
        _CERTS["B"] = D.RTCCertificate.generateCertificate()
    return _CERTS


class Pair:
    def __init__(self, server="A", profiles=None):
        self.loop = VLoop().install()
        c = certs()
        self.ice = {"A": FakeIce("controlling" if server == "A" else "controlled"),
                    "B": FakeIce("controlling" if server == "B" else "controlled")}
        self.ice["A"].peer, self.ice["B"].peer = self.ice["B"], self.ice["A"]
        self.dtls = {s: D.RTCDtlsTransport(self.ice[s], [c[s]]) for s in "AB"}
        if profiles:
            for s in "AB":
                self.dtls[s]._srtp_profiles = profiles[s]
        self.sink = {s: Sink(ssrc=0x5E5E0000 + ord(s)) for s in "AB"}
        for s in "AB":
            self.dtls[s]._register_data_receiver(self.sink[s])
            params = RTCRtpReceiveParameters(
                codecs=[RTCRtpCodecParameters(mimeType="video/VP8", clockRate=90000, payloadType=96),
                        RTCRtpCodecParameters(mimeType="audio/PCMU", clockRate=8000, channels=1, payloadType=0)],
                encodings=[RTCRtpDecodingParameters(ssrc=0xCAFE0000 + ord("A" if s == "B" else "B"), payloadType=96)])
            self.dtls[s]._register_rtp_receiver(self.sink[s], params)
            self.dtls[s]._register_rtp_sender(self.sink[s], RTCRtpSendParameters())

    def start(self, fingerprints):
        """fingerprints: {side: list of RTCDtlsFingerprint that this side is told about its peer}"""
        async def go():
            await asyncio.gather(*(self.dtls[s].start(D.RTCDtlsParameters(fingerprints=fingerprints[s])) for s in "AB"))
        self.loop.run_until(go(), max_time=120.0)
        self.loop.drain()

    def settle(self):
        self.loop.drain()

    def close(self):
        try:
            async def stop():
                for s in "AB":
                    try:
                        await self.dtls[s].stop()
                    except Exception:
                        pass
                    await self.ice[s].stop()
            self.loop.run_until(stop(), max_time=60.0)
            for t in self.loop.pending_tasks():
                t.cancel()
            self.loop.drain()
        finally:
            self.loop.uninstall()


def true_fingerprints(side):
    return {f.algorithm: f.value for f in certs()[side].getFingerprints()}


def legacy_digest(side, alg):
    der = certs()[side]._cert.public_bytes(serialization.Encoding.DER)
    h = hashlib.new(alg.replace("-", ""), der).hexdigest().upper()
    return ":".join(h[i:i + 2] for i in range(0, len(h), 2))


def mixed_case(v):
    return "".join(c.lower() if i % 3 == 0 else c.upper() for i, c in enumerate(v))


def entry_alphabet(peer):
    """(name, algorithm string, value, supported?, matches?)"""
    tf = true_fingerprints(peer)
    out = []
    for alg in ("sha-256", "sha-384", "sha-512"):
        v = tf[alg]
        wrong = ("0" if v[0] != "0" else "1") + v[1:]
        last = v[:-1] + ("0" if v[-1] != "0" else "1")
        out += [
            (alg + ":upper", alg, v.upper(), True, True),
            (alg + ":lower", alg, v.lower(), True, True),
            (alg + ":mixed", alg, mixed_case(v), True, True),
            (alg + ":wrong-first", alg, wrong, True, False),
            (alg + ":wrong-last", alg, last, True, False),
            (alg + ":truncated", alg, v[:-3], True, False),
        ]
    out += [
        ("SHA-256:algname-upper", "SHA-256", tf["sha-256"], True, True),
        ("Sha-512:algname-mixed-wrong", "Sha-512", tf["sha-512"][:-1] + ("A" if tf["sha-512"][-1] != "A" else "B"), True, False),
        ("sha-1:real", "sha-1", legacy_digest(peer, "sha-1"), False, None),
        ("sha-1:garbage", "sha-1", "00:11:22", False, None),
        ("md5:real", "md5", legacy_digest(peer, "md5"), False, None),
        ("sha-224:garbage", "sha-224", "zz", False, None),
    ]
    return out


def expected_connect(entries):
    supported = [e for e in entries if e[3]]
    return bool(supported) and all(e[4] for e in supported)


def fingerprint_case(entries_a, both=False):
    """A is told `entries_a` about B's certificate (B gets the full correct list for A, or the same kind of list when
    both=True). Returns list of (clause, detail)."""
    out = []
    P = Pair(server="B")
    try:
        fa = [D.RTCDtlsFingerprint(algorithm=e[1], value=e[2]) for e in entries_a]
        if both:
            eb = [x for x in entry_alphabet("A") if x[0] in {e[0] for e in entries_a}]
            fb = [D.RTCDtlsFingerprint(algorithm=e[1], value=e[2]) for e in eb]
        else:
            eb = None
            fb = certs()["A"].getFingerprints()
        P.start({"A": fa, "B": fb})
        want_a = "connected" if expected_connect(entries_a) else "failed"
        want_b = "connected" if (eb is None or expected_connect(eb)) else "failed"
        got_a, got_b = P.dtls["A"].state, P.dtls["B"].state
        if got_a != want_a:
            out.append(("fingerprint/state", "side told %r about its peer ended %s, expected %s" % ([e[0] for e in entries_a], got_a, want_a)))
        if got_b != want_b:
            out.append(("fingerprint/peer-state", "peer ended %s, expected %s" % (got_b, want_b)))
        if out:
            return out
        # a side that failed hands over nothing and refuses to send
        async def traffic():
            res = {}
            for s in "AB":
                o = "B" if s == "A" else "A"
                for name, coro in (("data", P.dtls[s]._send_data(b"hello")),
                                   ("rtp", P.dtls[s]._send_rtp(rtp_packet(1, 100, sender=s).serialize()))):
                    try:
                        await coro
                        res[(s, name)] = "sent"
                    except ConnectionError:
                        res[(s, name)] = "refused"
                    except Exception as e:
                        res[(s, name)] = "%s: %s" % (type(e).__name__, e)
            return res
        res = P.loop.run_until(traffic(), max_time=30.0)
        P.settle()
        for s, got in (("A", got_a), ("B", got_b)):
            if got == "failed":
                if P.sink[s].total():
                    out.append(("fingerprint/failed-side-received", "%s is failed but was handed %d items" % (s, P.sink[s].total())))
                if any(res[(s, n)] != "refused" for n in ("data", "rtp")):
                    out.append(("fingerprint/failed-side-sends", "%s is failed, sending gave %r" % (s, {n: res[(s, n)] for n in ("data", "rtp")})))
            elif any(res[(s, n)] != "sent" for n in ("data", "rtp")):
                out.append(("fingerprint/connected-side-cannot-send", "%s: %r" % (s, {n: res[(s, n)] for n in ("data", "rtp")})))
        if got_a == got_b == "connected":
            for s in "AB":
                if P.sink[s].data != [b"hello"] or len(P.sink[s].rtp) != 1:
                    out.append(("fingerprint/connected-no-delivery", "%s received data %r, %d RTP packets" % (s, P.sink[s].data, len(P.sink[s].rtp))))
        return out
    finally:
        P.close()


def fingerprint_task(task):
    maxlen, shard, nshard = task
    T = Tally()
    alpha = entry_alphabet("B")
    k = -1
    for L in range(1, maxlen + 1):
        for combo in itertools.product(alpha, repeat=L):
            k += 1
            if k % nshard != shard:
                continue
            for both in ((False, True) if L == 1 else (False,)):
                T.case(("fp", tuple(e[0] for e in combo), both))
                T.count("fingerprint-lists")
                v = fingerprint_case(list(combo), both)
                for clause, detail in v[:2]:
                    T.violation(clause, clause, detail, dict(kind="fingerprints", entries=[e[0] for e in combo], both=both))
    if shard == 0:
        T.sample(dict(kind="fingerprint-list", example=[e[0] for e in alpha[:3]], alphabet=len(alpha), max_length=maxlen))
    return T


# ----------------------------------------------------------------------------- battery
def rtp_packet(i, size, ext=False, sender="A"):
    p = R.RtpPacket(payload_type=96 if i % 2 else 0, marker=i % 2, sequence_number=(65530 + i) % 65536, timestamp=(2 ** 32 - 5000 + 3000 * i) % 2 ** 32,
                    ssrc=0xCAFE0000 + ord(sender), payload=bytes((j * 5 + i) & 0xFF for j in range(size)))
    if ext:
        p.csrc = [1, 2]
        p.padding_size = 4
    return p


def rtcp_compounds(sender):
    ssrc = 0xCAFE0000 + ord(sender)
    peer_sender_ssrc = 0x5E5E0000 + ord("B" if sender == "A" else "A")
    si = R.RtcpSenderInfo(ntp_timestamp=1 << 40, rtp_timestamp=5, packet_count=6, octet_count=7)
    rep = R.RtcpReceiverInfo(ssrc=peer_sender_ssrc, fraction_lost=1, packets_lost=-2, highest_sequence=3, jitter=4, lsr=5, dlsr=6)
    return [
        [R.RtcpSrPacket(ssrc=ssrc, sender_info=si, reports=[rep])],
        [R.RtcpRrPacket(ssrc=ssrc, reports=[rep]), R.RtcpSdesPacket(chunks=[R.RtcpSourceInfo(ssrc=ssrc, items=[(1, b"cname")])])],
        [R.RtcpRtpfbPacket(fmt=1, ssrc=ssrc, media_ssrc=peer_sender_ssrc, lost=[65535, 0, 5])],
        [R.RtcpPsfbPacket(fmt=15, ssrc=ssrc, media_ssrc=0, fci=R.pack_remb_fci(123456, [peer_sender_ssrc]))],
    ]


DATA_BATTERY = [b"x", bytes(range(256)) * 4 + b"tail" * 44, bytes((i * 3) & 0xFF for i in range(1400))]


def battery(P, T, tag):
    """Sends the battery each way; returns violations. Also returns the protected datagrams per direction."""
    out = []
    wire = {}
    for s in "AB":
        o = "B" if s == "A" else "A"
        sent_before = len(P.ice[s].sent)
        rtp_sent = [rtp_packet(i, size, ext, s) for i, (size, ext) in enumerate([(0, False), (1, False), (100, True), (1200, False), (1200, True)])]
        comps = rtcp_compounds(s)

        async def go():
            for p in rtp_sent:
                await P.dtls[s]._send_rtp(p.serialize())
            for c in comps:
                await P.dtls[s]._send_rtp(b"".join(bytes(x) for x in c))
            for d in DATA_BATTERY:
                await P.dtls[s]._send_data(d)
        try:
            P.loop.run_until(go(), max_time=30.0)
        except Exception as e:
            return [("battery/send-raises", "%s: %s (%s)" % (type(e).__name__, e, tag))], wire
        P.settle()
        wire[s] = P.ice[s].sent[sent_before:]
        got = P.sink[o]
        T.transitions += len(rtp_sent) + len(comps) + len(DATA_BATTERY)
        want_rtp = [(p.payload_type, p.marker, p.sequence_number, p.timestamp, p.ssrc, list(p.csrc), bytes(p.payload), p.padding_size) for p in rtp_sent]
        got_rtp = [(p.payload_type, p.marker, p.sequence_number, p.timestamp, p.ssrc, list(p.csrc), bytes(p.payload), p.padding_size) for p in got.rtp]
        if got_rtp != want_rtp:
            out.append(("battery/rtp", "%s->%s: %d RTP packets delivered, %d sent, first difference at %d (%s)" % (
                s, o, len(got_rtp), len(want_rtp), next((i for i, (a, b) in enumerate(zip(got_rtp, want_rtp)) if a != b), min(len(got_rtp), len(want_rtp))), tag)))
        # RTCP is routed per packet to the sinks that the SSRCs name: SR -> receiver, RR/NACK/REMB -> sender (same sink object)
        want_rtcp = [type(x).__name__ for c in comps for x in c if not isinstance(x, R.RtcpSdesPacket)]
        got_rtcp = [type(x).__name__ for x in got.rtcp]
        if sorted(got_rtcp) != sorted(want_rtcp):
            out.append(("battery/rtcp", "%s->%s: RTCP packets delivered %r, sent %r (%s)" % (s, o, got_rtcp, want_rtcp, tag)))
        else:
            flat = [x for c in comps for x in c if not isinstance(x, R.RtcpSdesPacket)]
            for a in flat:
                if not any(a == b or (isinstance(a, R.RtcpRtpfbPacket) and isinstance(b, R.RtcpRtpfbPacket) and set(a.lost) == set(b.lost)) for b in got.rtcp):
                    out.append(("battery/rtcp-content", "%s->%s: %s not delivered intact (%s)" % (s, o, type(a).__name__, tag)))
        if got.data != DATA_BATTERY:
            out.append(("battery/data", "%s->%s: data messages of sizes %r delivered, %r sent (%s)" % (
                s, o, [len(d) for d in got.data], [len(d) for d in DATA_BATTERY], tag)))
        got.rtp.clear(), got.rtcp.clear(), got.data.clear()
    return out, wire


def first_byte_family(P, T, tag):
    """Every first byte a (S)RTP / (S)RTCP datagram can have - 0x80..0xBF: version 2 x padding x extension x CSRC count 0-15,
    and version 2 x padding x report count 0-31 - must get through the transport's demultiplexer and arrive intact."""
    import struct
    out = []
    for s in "AB":
        o = "B" if s == "A" else "A"
        ssrc = 0xCAFE0000 + ord(s)
        peer_sender_ssrc = 0x5E5E0000 + ord(o)
        ssrc2 = 0xBEEF0000 + ord(s)        # a second media stream of the same side (its own SRTP replay window)
        rep = R.RtcpReceiverInfo(ssrc=peer_sender_ssrc, fraction_lost=1, packets_lost=2, highest_sequence=3, jitter=4, lsr=5, dlsr=6)
        si = R.RtcpSenderInfo(ntp_timestamp=1 << 40, rtp_timestamp=5, packet_count=6, octet_count=7)
        rtp_raw, rtp_want, rtcp_raw, rtcp_want = [], [], [], []
        for b in range(0x80, 0xC0):
            pad, ext, cc = (b >> 5) & 1, (b >> 4) & 1, b & 0x0F
            payload = bytes([b, 1, 2, 3, 4, 5, 6, 7])
            raw = struct.pack("!BBHLL", b, 96, 1000 + b, 160 * b, ssrc2) + b"".join(struct.pack("!L", 0x100 + i) for i in range(cc))
            if ext:
                raw += struct.pack("!HH", 0xBEDE, 1) + b"\x00\x00\x00\x00"      # one word of extension padding bytes
            raw += payload + (b"\x00\x00\x00\x04" if pad else b"")
            rtp_raw.append(raw)
            rtp_want.append((96, 1000 + b, 160 * b, ssrc2, [0x100 + i for i in range(cc)], payload, 4 if pad else 0))
            count = b & 0x1F
            pkt = R.RtcpRrPacket(ssrc=ssrc, reports=[rep] * count) if count else R.RtcpSrPacket(ssrc=ssrc, sender_info=si, reports=[])
            raw = bytes(pkt)
            if pad:
                words = struct.unpack("!H", raw[2:4])[0] + 1
                raw = bytes([raw[0] | 0x20, raw[1]]) + struct.pack("!H", words) + raw[4:] + b"\x00\x00\x00\x04"
            rtcp_raw.append(raw)
            rtcp_want.append(pkt)

        async def go():
            for raw in rtp_raw + rtcp_raw:
                await P.dtls[s]._send_rtp(raw)
        try:
            P.loop.run_until(go(), max_time=30.0)
        except Exception as e:
            return [("first-byte/send-raises", "%s: %s (%s)" % (type(e).__name__, e, tag))]
        P.settle()
        got = P.sink[o]
        T.transitions += len(rtp_raw) + len(rtcp_raw)
        got_rtp = [(p.payload_type, p.sequence_number, p.timestamp, p.ssrc, list(p.csrc), bytes(p.payload), p.padding_size) for p in got.rtp]
        if got_rtp != rtp_want:
            missing = sorted({0xFF & (w[1] - 1000) for w in rtp_want} - {0xFF & (g[1] - 1000) for g in got_rtp})
            out.append(("first-byte/rtp", "%s->%s: %d of 64 RTP datagrams (one per first byte 0x80-0xBF) delivered intact; first bytes not delivered: %s (%s)" % (
                s, o, len([g for g in got_rtp if g in rtp_want]), ["%#x" % m for m in missing][:6], tag)))
        if len(got.rtcp) != len(rtcp_want) or any(a != b for a, b in zip(got.rtcp, rtcp_want)):
            bad = [i for i, w in enumerate(rtcp_want) if w not in got.rtcp]
            out.append(("first-byte/rtcp", "%s->%s: %d RTCP packets delivered of 64 (one per first byte 0x80-0xBF); first bytes not delivered intact: %s (%s)" % (
                s, o, len(got.rtcp), ["%#x" % (0x80 + i) for i in bad][:6], tag)))
        got.rtp.clear(), got.rtcp.clear(), got.data.clear()
    return out


def profile_lists():
    profs = list(D.SRTP_PROFILES)
    out = []
    for n in range(1, len(profs) + 1):
        out += [list(p) for p in itertools.permutations(profs, n)]
    return out


def keys_task(task):
    shard, nshard, flips = task
    T = Tally()
    lists = profile_lists()
    k = -1
    for la in lists:
        for lb in lists:
            for server in "AB":
                k += 1
                if k % nshard != shard:
                    continue
                names = ([p.openssl_profile.decode() for p in la], [p.openssl_profile.decode() for p in lb], server)
                T.case(("keys",) + (tuple(names[0]), tuple(names[1]), server))
                T.count("srtp-profile-matrix")
                P = Pair(server=server, profiles={"A": la, "B": lb})
                try:
                    P.start({"A": certs()["B"].getFingerprints(), "B": certs()["A"].getFingerprints()})
                    common = [p for p in la if p in lb]
                    states = (P.dtls["A"].state, P.dtls["B"].state)
                    want = ("connected", "connected") if common else ("failed", "failed")
                    if states != want:
                        T.violation("keys/state", "keys/state", "profiles %r / %r, server %s: states %r, expected %r" % (names[0], names[1], server, states, want),
                                    dict(kind="keys", a=names[0], b=names[1], server=server))
                        continue
                    if not common:
                        continue
                    v, wire = battery(P, T, "profiles %r / %r, server %s" % names)
                    for clause, detail in v[:2]:
                        T.violation(clause, clause, detail, dict(kind="keys", a=names[0], b=names[1], server=server))
                    if not v:
                        for clause, detail in first_byte_family(P, T, "profiles %r / %r, server %s" % names)[:2]:
                            T.violation(clause, clause, detail, dict(kind="keys", a=names[0], b=names[1], server=server))
                    if not v and flips and la == lb and len(la) == 1:
                        tamper(P, T, wire, names)
                finally:
                    P.close()
    if shard == 0:
        T.sample(dict(kind="srtp-profile-lists", available=[p.openssl_profile.decode() for p in D.SRTP_PROFILES], lists_per_side=len(lists)))
    return T


def tamper(P, T, wire, names):
    """EVERY single-bit flip of every protected battery datagram sent by A must be discarded by B."""
    sink = P.sink["B"]
    n = 0
    for idx, dg in enumerate(wire["A"]):
        value = int.from_bytes(dg, "big")
        nbits = len(dg) * 8
        for bit in range(nbits):
            bad = (value ^ (1 << (nbits - 1 - bit))).to_bytes(len(dg), "big")
            P.ice["B"].queue.put_nowait(bad)
        P.loop.drain()
        n += nbits
        if sink.total():
            what = "data %r" % [len(d) for d in sink.data] if sink.data else ("%d RTP / %d RTCP packets" % (len(sink.rtp), len(sink.rtcp)))
            T.violation("tamper/accepted", "tamper/accepted",
                        "a single-bit flip of battery datagram #%d (%d bytes, first byte %#x) was accepted: %s (profile %r)" % (
                            idx, len(dg), dg[0], what, names[0]),
                        dict(kind="tamper", index=idx, profile=names[0]))
            sink.rtp.clear(), sink.rtcp.clear(), sink.data.clear()
        if P.dtls["B"].state != "connected":
            T.violation("tamper/transport-down", "tamper/transport-down",
                        "after bit flips of datagram #%d the receiving transport is %s" % (idx, P.dtls["B"].state),
                        dict(kind="tamper", index=idx, profile=names[0]))
            break
    # forged traffic: the same battery in PLAINTEXT (never protected), and protected datagrams whose body was replaced by
    # plaintext of the same kind - an attacker on the path can write anything; without the key nothing may be accepted
    forged = [rtp_packet(i, size, ext, "A").serialize() for i, (size, ext) in enumerate([(0, False), (100, True), (1200, False)])]
    forged += [b"".join(bytes(x) for x in c) for c in rtcp_compounds("A")]
    forged.append(bytes(R.RtcpSrPacket(ssrc=0xCAFE0000 + ord("A"), sender_info=R.RtcpSenderInfo(1, 2, 3, 4))) +
                  bytes(R.RtcpByePacket(sources=[0xCAFE0000 + ord("A")])))
    for dg in wire["A"]:
        if dg and 127 < dg[0] < 192:
            hdr = 8 if R.is_rtcp(dg) else 12
            forged.append(dg[:hdr] + b"".join(bytes(x) for x in rtcp_compounds("A")[0])[hdr:] if R.is_rtcp(dg) else dg[:hdr] + b"forged payload")
    for k, f in enumerate(forged):
        P.ice["B"].queue.put_nowait(f)
        P.loop.drain()
        n += 1
        if sink.total():
            T.violation("tamper/forged-accepted", "tamper/forged-accepted",
                        "an unauthenticated (plaintext / body-replaced) %s datagram #%d of %d bytes was handed to the application (profile %r)" % (
                            "RTCP" if R.is_rtcp(f) else "RTP", k, len(f), names[0]), dict(kind="tamper", index=1000 + k, profile=names[0]))
            sink.rtp.clear(), sink.rtcp.clear(), sink.data.clear()
    T.count("single-bit-flips", n)
    T.evaluations += n
    T.distinct += n
    T.transitions += n
    # the untouched transport still works afterwards
    async def again():
        await P.dtls["A"]._send_data(b"after")
        await P.dtls["A"]._send_rtp(rtp_packet(9, 50, sender="A").serialize())
    try:
        P.loop.run_until(again(), max_time=30.0)
        P.settle()
        if sink.data != [b"after"] or len(sink.rtp) != 1:
            T.violation("tamper/wedged", "tamper/wedged", "after the tampered datagrams valid traffic is no longer delivered (data %r, %d RTP)" % (
                sink.data, len(sink.rtp)), dict(kind="tamper", index=-1, profile=names[0]))
    except Exception as e:
        T.violation("tamper/wedged", "tamper/wedged", "%s: %s" % (type(e).__name__, e), dict(kind="tamper", index=-1, profile=names[0]))


# ----------------------------------------------------------------------------- entry points
def run(tier, seed):
    maxlen = 2 if tier == "quick" else 3
    ns = 32
    total = pmap("props.c04", "fingerprint_task", [(maxlen, s, ns) for s in range(ns)], seed=seed)
    total.merge(pmap("props.c04", "keys_task", [(s, 16, True) for s in range(16)], seed=seed))
    n_alpha = 24
    return result(
        PID, total,
        rule="fingerprints: all lists of length 1..%d over an alphabet of 24 entries built from the peer's real certificate ({sha-256, "
             "sha-384, sha-512} x {upper, lower, mixed case, first digit wrong, last digit wrong, truncated}, algorithm name in upper/"
             "mixed case, unsupported sha-1 / md5 / sha-224 with real or garbage values), real OpenSSL handshake per list; expected "
             "connected iff >= 1 supported entry and all supported entries match (case-insensitive); a failed side is handed nothing "
             "and refuses to send; keys: every ordered non-empty SRTP profile list on each side x both role assignments (connect iff "
             "the lists intersect) and then a battery each way (5 RTP packets incl. CSRC/padding and sequence/timestamp near the "
             "wrap, 4 RTCP compounds, 3 data messages) must arrive intact; tampering: EVERY single-bit flip of every protected battery "
             "datagram (one run per SRTP profile) and forged plaintext / body-replaced RTP and RTCP datagrams must be discarded, the transport stays up and valid traffic still flows. distinct "
             "= distinct lists / matrix cells / flipped bits" % maxlen,
        assumptions=["handshakes are explored fault-free: OpenSSL's DTLS retransmission timer reads the wall clock, which the virtual "
                     "loop does not own", "payload values beyond the battery are not enumerated; data messages up to 1400 bytes (what "
                     "SCTP hands to DTLS)"])


def replay(rep):
    r = rep["replay"]
    if r["kind"] == "fingerprints":
        alpha = {e[0]: e for e in entry_alphabet("B")}
        v = fingerprint_case([alpha[n] for n in r["entries"]], r.get("both", False))
        print(r["entries"])
        for clause, detail in v:
            print("FAILS clause=%s: %s" % (clause, detail))
        return 1 if v else 0
    print(r)
    T = keys_task((0, 1, True))
    for sig, v in T.violations.items():
        print("FAILS clause=%s: %s" % (v["clause"], v["detail"]))
    return 1 if T.violations else 0
