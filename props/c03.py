"""C03 - offer/answer yields a consistent, connectable session for every configuration.

E-enum over the configuration product, each configuration negotiated between two real
RTCPeerConnections (virtual loop, fake ICE, real SDP, real DTLS, real SCTP) and then run until the
session is up; follow-up negotiations (add media, add a data channel, swap the offering side) are
applied on top.
"""
import itertools

from aiortc import RTCConfiguration, RTCBundlePolicy, RTCRtpSender, RTCSessionDescription
from aiortc import sdp as SDP
from vt.enumcheck import Tally, pmap, result
from vt.pcworld import PcWorld, PendingTrack

PID = "C03"
DIRECTIONS = ["sendrecv", "sendonly", "recvonly", "inactive"]
REVERSE = {"sendrecv": "sendrecv", "sendonly": "recvonly", "recvonly": "sendonly", "inactive": "inactive"}
BUNDLE = {"balanced": RTCBundlePolicy.BALANCED, "max-compat": RTCBundlePolicy.MAX_COMPAT, "max-bundle": RTCBundlePolicy.MAX_BUNDLE}
PREFS = ["default", "one", "one+rtx", "reversed"]


# ----------------------------------------------------------------------------- configuration space
def offer_items(tier):
    """media items of the offerer: (kind, direction, via, prefs)"""
    items = []
    for kind in ("audio", "video"):
        for direction in DIRECTIONS:
            for via in ("track", "transceiver"):
                items.append((kind, direction, via, "default"))
        for pref in PREFS[1:]:
            for via in ("track", "transceiver"):
                items.append((kind, "sendrecv", via, pref))
    return items


def configs(tier):
    items = offer_items(tier)
    media_lists = [()] + [(i,) for i in items]
    if tier == "thorough":
        small = [i for i in items if i[3] == "default" or i[2] == "track"]
        media_lists += [(a, b) for a in small for b in small if not (a[3] != "default" and b[3] != "default")]
    # three items, two of them of one kind (the balanced policy shares a transport between transceivers of one kind)
    base = lambda k: (k, "sendrecv", "track", "default")
    media_lists += [tuple(base(k) for k in kinds) for kinds in (("audio", "video", "video"), ("video", "audio", "audio"),
                                                                ("audio", "audio", "video"), ("video", "video", "video"))]
    answer_pre = [()]
    for kinds in (("audio",), ("video",), ("audio", "video")):
        for track in (True, False):
            answer_pre.append(tuple((k, track) for k in kinds))
    out = []
    for media in media_lists:
        for odc in (False, True):
            if not media and not odc:
                continue
            for ob in BUNDLE:
                for pre in answer_pre:
                    if tier == "quick" and len(pre) == 2 and (len(media) == 0 or media[0][3] != "default"):
                        continue
                    if len(media) == 3 and len(pre) == 2:
                        continue
                    for adc in (False, True):
                        for ab in BUNDLE:
                            if tier == "quick" and ab != ob and media and media[0][3] != "default":
                                continue
                            out.append(dict(media=media, odc=odc, ob=ob, pre=pre, adc=adc, ab=ab))
    return out


FOLLOWUPS = ["add-other-kind", "add-datachannel", "swap-roles", "add-same-kind"]


def codec_prefs(kind, pref):
    caps = RTCRtpSender.getCapabilities(kind).codecs
    real = [c for c in caps if not c.mimeType.lower().endswith("/rtx")]
    rtx = [c for c in caps if c.mimeType.lower().endswith("/rtx")]
    if pref == "one":
        return [real[-1]]
    if pref == "one+rtx":
        return [real[-1]] + rtx[:1]
    if pref == "reversed":
        return list(reversed(real))[:2]
    return []


# ----------------------------------------------------------------------------- building and negotiating
def build(w, cfg):
    a = w.pc(RTCConfiguration(iceServers=[], bundlePolicy=BUNDLE[cfg["ob"]]))
    b = w.pc(RTCConfiguration(iceServers=[], bundlePolicy=BUNDLE[cfg["ab"]]))
    for kind, direction, via, pref in cfg["media"]:
        if via == "track":
            a.addTrack(PendingTrack(kind))
            t = a.getTransceivers()[-1]
            t.direction = direction
        else:
            t = a.addTransceiver(kind, direction=direction)
        prefs = codec_prefs(kind, pref)
        if prefs:
            t.setCodecPreferences(prefs)
    chans = {}
    if cfg["odc"]:
        chans["a"] = a.createDataChannel("from-a")
    for kind, track in cfg["pre"]:
        if track:
            b.addTrack(PendingTrack(kind))
        else:
            b.addTransceiver(kind)
    if cfg["adc"]:
        chans["b"] = b.createDataChannel("from-b")
    return a, b, chans


def renumber(desc):
    """The same session in another peer's numbering: dynamic payload types p -> 223 - p (96..127 reversed) and header
    extension ids e -> 15 - e, applied consistently to m=, rtpmap, fmtp (apt= included), rtcp-fb and extmap lines.  The
    mapping is an involution: every description crossing between the two peers, in either direction, goes through it, so
    each side sees a consistent peer that simply numbers things differently (as a browser does) and offers a little less."""
    import re
    pt = lambda m: str(223 - int(m)) if 96 <= int(m) <= 127 else m
    out = []
    for line in desc.sdp.split("\r\n"):
        if line.startswith(("m=audio", "m=video")):
            f = line.split(" ")
            line = " ".join(f[:3] + [pt(x) for x in f[3:]])
        elif re.match(r"a=(rtpmap|fmtp|rtcp-fb):\d+", line):
            line = re.sub(r"^(a=(?:rtpmap|fmtp|rtcp-fb):)(\d+)", lambda m: m.group(1) + pt(m.group(2)), line)
            line = re.sub(r"\bapt=(\d+)", lambda m: "apt=" + pt(m.group(1)), line)
        elif line.startswith("a=extmap:"):
            line = re.sub(r"^a=extmap:(\d+)", lambda m: "a=extmap:%d" % (15 - int(m.group(1))), line)
        # ... and the other peer's offers lack two things this library supports: picture loss indication (it offers "nack" but
        # not "nack pli") and the abs-send-time header extension. What was not offered must not be selected.
        if desc.type == "offer" and (re.match(r"a=rtcp-fb:\d+ nack pli$", line) or (line.startswith("a=extmap:") and line.endswith("abs-send-time"))):
            continue
        out.append(line)
    return RTCSessionDescription(sdp="\r\n".join(out), type=desc.type)


def negotiate(w, offerer, answerer, foreign=False):
    """Returns (offer as the answerer saw it, answer as the answerer made it); raises whatever the calls raise."""
    tr = renumber if foreign else (lambda d: d)

    async def go():
        offer = await offerer.createOffer()
        await offerer.setLocalDescription(offer)
        seen = tr(offerer.localDescription)
        await answerer.setRemoteDescription(seen)
        answer = await answerer.createAnswer()
        await answerer.setLocalDescription(answer)
        await offerer.setRemoteDescription(tr(answerer.localDescription))
        return seen, answerer.localDescription
    return w.run(go())


def check_descriptions(offer_sdp, answer_sdp, offerer, answerer):
    """Clauses about the answer mirroring the offer. Returns list of (clause, detail)."""
    out = []
    o = SDP.SessionDescription.parse(offer_sdp)
    a = SDP.SessionDescription.parse(answer_sdp)
    om = [(m.kind, m.rtp.muxId) for m in o.media]
    am = [(m.kind, m.rtp.muxId) for m in a.media]
    if om != am:
        return [("answer/sections", "offer sections %r, answer sections %r" % (om, am))]
    ob = next((g.items for g in o.group if g.semantic == "BUNDLE"), [])
    ab = next((g.items for g in a.group if g.semantic == "BUNDLE"), [])
    if not set(ab) <= set(ob) or [x for x in ob if x in ab] != list(ab):
        out.append(("answer/bundle", "offer BUNDLE %r, answer BUNDLE %r" % (ob, ab)))
    for mo, ma in zip(o.media, a.media):
        mid = mo.rtp.muxId
        if ma.dtls is None or ma.dtls.role not in ("client", "server"):
            out.append(("answer/dtls-role", "m-section %s: answer has no definite DTLS role (%r)" % (mid, ma.dtls and ma.dtls.role)))
        if mo.kind not in ("audio", "video"):
            continue
        if ma.direction != {"sendrecv": ma.direction}.get(mo.direction, ma.direction):
            pass
        allowed = {"sendrecv": DIRECTIONS, "sendonly": ["recvonly", "inactive"], "recvonly": ["sendonly", "inactive"],
                   "inactive": ["inactive"]}[mo.direction]
        if ma.direction not in allowed:
            out.append(("answer/direction", "m-section %s: offer %s answered with %s" % (mid, mo.direction, ma.direction)))
        offered = {c.payloadType: c for c in mo.rtp.codecs}
        for c in ma.rtp.codecs:
            oc = offered.get(c.payloadType)
            if oc is None or oc.mimeType.lower() != c.mimeType.lower() or oc.clockRate != c.clockRate:
                out.append(("answer/codec-not-offered", "m-section %s: answer codec %s/%d pt %d, offered %s" % (
                    mid, c.mimeType, c.clockRate, c.payloadType, oc and oc.mimeType)))
                continue
            if c.mimeType.lower().endswith("/rtx"):
                apt = c.parameters.get("apt")
                if apt not in [x.payloadType for x in ma.rtp.codecs if not x.mimeType.lower().endswith("/rtx")]:
                    out.append(("answer/rtx-without-base", "m-section %s: RTX pt %d apt=%r without its base codec" % (mid, c.payloadType, apt)))
            ofb = {(f.type, f.parameter) for f in oc.rtcpFeedback}
            for f in c.rtcpFeedback:
                if (f.type, f.parameter) not in ofb:
                    out.append(("answer/rtcp-fb-not-offered", "m-section %s: pt %d feedback %s %s" % (mid, c.payloadType, f.type, f.parameter)))
        if ma.port != 0 and ma.direction != "inactive" and not [c for c in ma.rtp.codecs if not c.mimeType.lower().endswith("/rtx")]:
            out.append(("answer/no-codec", "m-section %s accepted without any real codec" % mid))
        oext = {e.uri: e.id for e in mo.rtp.headerExtensions}
        for e in ma.rtp.headerExtensions:
            if oext.get(e.uri) != e.id:
                out.append(("answer/header-extension", "m-section %s: extension %s id %d, offered id %r" % (mid, e.uri, e.id, oext.get(e.uri))))
    return out


def check_directions(offerer, answerer):
    out = []
    for t in offerer.getTransceivers():
        if t.mid is None:
            continue
        peer = next((x for x in answerer.getTransceivers() if x.mid == t.mid), None)
        if peer is None:
            out.append(("direction/no-peer-transceiver", "mid %s has no transceiver on the answering side" % t.mid))
            continue
        if t.currentDirection is None or peer.currentDirection is None or REVERSE[t.currentDirection] != peer.currentDirection:
            out.append(("direction/not-complementary", "mid %s: currentDirection %r on the offerer, %r on the answerer" % (
                t.mid, t.currentDirection, peer.currentDirection)))
    return out


def negotiated_application(pc):
    d = pc.localDescription
    return d is not None and "m=application" in d.sdp


def check_connected(w, a, b, chans, received, round_tag):
    """Run until the session is up; both connected, negotiated channels open, a message each way."""
    out = []
    w.settle(max_time=6.0)
    app = negotiated_application(a) and negotiated_application(b)
    for name, pc in (("offerer", a), ("answerer", b)):
        if pc.connectionState != "connected":
            # a transport that belongs to something the negotiated session does not contain (a data channel or a
            # transceiver created beforehand for which there is no m-section) stays idle
            idle = []
            sctp = pc.sctp
            if sctp is not None and not app and sctp.transport.state == "new":
                idle.append("sctp")
            for t in pc.getTransceivers():
                if t.mid is None and t.receiver.transport.state == "new":
                    idle.append(t.kind)
            clause = "connect/state"
            if idle:
                clause = "connect/state/unnegotiated-transport"
            out.append((clause, "%s connectionState=%s iceConnectionState=%s (%s)" % (name, pc.connectionState, pc.iceConnectionState, round_tag)))
    if out:
        return out
    # every negotiated m-section sits on a transport that is connected (media of that section can flow)
    for name, pc in (("offerer", a), ("answerer", b)):
        for t in pc.getTransceivers():
            if t.mid is None:
                continue
            for what, tr in (("sender", t.sender.transport), ("receiver", t.receiver.transport)):
                if tr.state != "connected" or tr.transport.state != "completed":
                    out.append(("connect/section-transport", "%s: mid %s (%s) %s is on a transport in state %s / ICE %s (%s)" % (
                        name, t.mid, t.kind, what, tr.state, tr.transport.state, round_tag)))
        if pc.sctp is not None and app and (pc.sctp.transport.state != "connected" or pc.sctp.state != "connected"):
            out.append(("connect/section-transport", "%s: SCTP transport %s on DTLS %s (%s)" % (name, pc.sctp.state, pc.sctp.transport.state, round_tag)))
    if out:
        return out[:2]
    if app:
        live = []
        for key, ch in chans.items():
            if ch.readyState != "open":
                out.append(("connect/channel-not-open", "channel %s is %s (%s)" % (ch.label, ch.readyState, round_tag)))
            else:
                live.append(ch)
        for ch in live:
            try:
                ch.send("ping-" + ch.label + round_tag)
            except Exception as e:
                out.append(("connect/send-raises", "%s: %s" % (type(e).__name__, e)))
        w.settle(max_time=3.0)
        for ch in live:
            if ("ping-" + ch.label + round_tag) not in received:
                out.append(("connect/message-lost", "message on %s not delivered (%s)" % (ch.label, round_tag)))
    return out


def run_config(cfg, followup=None, foreign=False, early=False, capture=None):
    """Returns list of (clause, detail)."""
    w = PcWorld()
    w.net.check_latency = 0.3 if early else 0.0
    try:
        try:
            a, b, chans = build(w, cfg)
        except Exception as e:
            return [("setup/raises", "%s: %s" % (type(e).__name__, e))]
        received = []
        for pc in (a, b):
            def on_dc(ch, received=received):
                ch.on("message", lambda m: received.append(m))
                # echo nothing; remember the remote end so that it can be checked for openness
                chans["remote-" + ch.label] = ch
            pc.on("datachannel", on_dc)
        for ch in list(chans.values()):
            ch.on("message", lambda m: received.append(m))
        try:
            offer, answer = negotiate(w, a, b, foreign)
        except Exception as e:
            import traceback
            tb = traceback.extract_tb(e.__traceback__)
            where = next((f.name for f in reversed(tb) if "aiortc" in f.filename), "?")
            return [("negotiate/raises/%s" % type(e).__name__, "%s: %s in %s" % (type(e).__name__, e, where))]
        out = []
        if capture is not None:
            capture["offer"], capture["answer"] = offer.sdp, answer.sdp
        if a.signalingState != "stable" or b.signalingState != "stable":
            out.append(("negotiate/not-stable", "signalingState %s / %s" % (a.signalingState, b.signalingState)))
        out += check_descriptions(offer.sdp, answer.sdp, a, b)
        out += check_directions(a, b)
        if out:
            return out
        if not (early and followup):
            # (early: the follow-up negotiation starts at once, while ICE checks and DTLS of the first round are in flight)
            out += check_connected(w, a, b, chans, received, "round1")
        if out or not followup:
            return out
        # ---- follow-up negotiation
        offerer, answerer = a, b
        try:
            if followup == "add-other-kind":
                kinds = [m[0] for m in cfg["media"]]
                kind = "video" if "video" not in kinds else "audio"
                a.addTrack(PendingTrack(kind))
            elif followup == "add-same-kind":
                kind = cfg["media"][0][0] if cfg["media"] else "audio"
                a.addTransceiver(kind, direction="sendonly")
            elif followup == "add-datachannel":
                if "a" not in chans:
                    chans["a"] = a.createDataChannel("from-a")
                    chans["a"].on("message", lambda m: received.append(m))
                else:
                    chans["a2"] = a.createDataChannel("from-a2")
                    chans["a2"].on("message", lambda m: received.append(m))
            elif followup == "swap-roles":
                offerer, answerer = b, a
                b.addTransceiver("audio", direction="sendrecv")
            offer, answer = negotiate(w, offerer, answerer, foreign)
        except Exception as e:
            import traceback
            tb = traceback.extract_tb(e.__traceback__)
            where = next((f.name for f in reversed(tb) if "aiortc" in f.filename), "?")
            return [("renegotiate/raises/%s" % type(e).__name__, "%s: %s in %s (follow-up %s)" % (type(e).__name__, e, where, followup))]
        if a.signalingState != "stable" or b.signalingState != "stable":
            out.append(("renegotiate/not-stable", "signalingState %s / %s" % (a.signalingState, b.signalingState)))
        out += [("re" + c, d) for c, d in check_descriptions(offer.sdp, answer.sdp, offerer, answerer)]
        out += [("re" + c, d) for c, d in check_directions(offerer, answerer)]
        if not out:
            out += [("re" + c, d) for c, d in check_connected(w, offerer, answerer, chans, received, "round2")]
        return out
    finally:
        w.close()


def cfg_key(cfg, followup):
    return "media=%s odc=%d ob=%s | pre=%s adc=%d ab=%s | followup=%s" % (
        ",".join("%s:%s:%s:%s" % m for m in cfg["media"]) or "-", cfg["odc"], cfg["ob"],
        ",".join("%s%s" % (k, "+track" if t else "") for k, t in cfg["pre"]) or "-", cfg["adc"], cfg["ab"], followup or "-")


REFERENCE_CFG = dict(media=(("audio", "sendrecv", "track", "default"), ("video", "sendrecv", "track", "default")), odc=True, ob="balanced",
                     pre=(("audio", True), ("video", True)), adc=False, ab="balanced")


def task(args):
    tier, shard, nshard = args
    T = Tally()
    cs = configs(tier)
    # sessions are independent of each other: a reference configuration negotiated before everything else in this worker ...
    before = {}
    run_config(REFERENCE_CFG, capture=before)
    for i, cfg in enumerate(cs):
        if i % nshard != shard:
            continue
        fus = [None]
        # follow-ups on the default-codec sub-product
        if all(m[3] == "default" for m in cfg["media"]) and cfg["ob"] == cfg["ab"] and len(cfg["pre"]) <= 1:
            fus += FOLLOWUPS if (tier == "thorough" or cfg["ob"] != "max-compat") else []
        # every configuration with media also with the two peers numbering payload types / extension ids differently
        variants = [(fu, f, False) for fu in fus for f in ((False, True) if cfg["media"] else (False,))]
        variants += [(fu, False, True) for fu in fus if fu is not None]
        for fu, foreign, early in variants:
            tag = (" numbering=foreign" if foreign else "") + (" early" if early else "")
            T.case(cfg_key(cfg, fu) + tag)
            T.count(("configurations" if fu is None else "followup-" + fu) + ("/foreign-numbering" if foreign else "") + ("/early" if early else ""))
            v = run_config(cfg, fu, foreign, early)
            for clause, detail in v[:2]:
                T.violation(clause, clause, "%s [%s%s]" % (detail, cfg_key(cfg, fu), tag),
                            dict(kind="config", cfg=dict(cfg, media=[list(m) for m in cfg["media"]], pre=[list(p) for p in cfg["pre"]]),
                                 followup=fu, foreign=foreign, early=early))
            if i % 997 == 0 and fu is None:
                T.sample(dict(kind="configuration", cfg=cfg_key(cfg, fu)))
    # ... gives exactly the same descriptions after the worker has been through hundreds of other sessions (foreign
    # numbering, other codec preferences, follow-ups): nothing a session does may leak into the next one
    after = {}
    run_config(REFERENCE_CFG, capture=after)
    T.case("isolation/%d" % shard)
    T.count("session-isolation-comparisons")
    for k in ("offer", "answer"):
        # (every connection makes its own certificate: fingerprint lines are left out of the comparison)
        a = [x for x in (before.get(k) or "").split("\r\n") if not x.startswith("a=fingerprint:")]
        b = [x for x in (after.get(k) or "").split("\r\n") if not x.startswith("a=fingerprint:")]
        if a != b:
            diff = next(((x, y) for x, y in zip(a, b) if x != y), (len(a), len(b)))
            T.violation("isolation/" + k, "isolation/descriptions-differ",
                        "the reference configuration's %s differs after %d other sessions in the same process: first difference %r" % (k, len(cs) // nshard, diff),
                        dict(kind="isolation", shard=shard, nshard=nshard, tier=tier))
    return T


def run(tier, seed):
    ns = 64
    total = pmap("props.c03", "task", [(tier, s, ns) for s in range(ns)], seed=seed)
    return result(
        PID, total,
        rule="full product: offerer media = none | one item (thorough: also two; both tiers: four three-item lists with two items of one kind) of kind {audio,video} x direction {4} x added by "
             "{addTrack, addTransceiver} (codec preferences {one codec, one codec + RTX, two codecs reversed} on sendrecv items) x "
             "data channel {no,yes} x bundlePolicy {3}; answerer pre-created transceivers {none, audio, video, audio+video} x "
             "{with, without track} x data channel {no,yes} x bundlePolicy {3}; empty offers excluded; follow-up rounds {offerer "
             "adds the other kind, adds another transceiver of the same kind, adds a data channel, roles swap} on the default-codec "
             "sub-product, each also started EARLY (at once after the first answer is applied, while ICE and DTLS of the first round are still in flight); every configuration with media is run twice: natively, and with the two peers numbering things differently "
             "(every description crossing between them has its dynamic payload types and header-extension ids renumbered by an "
             "involution, as if the other peer were a browser). Each configuration: real createOffer/setLocal/setRemote/createAnswer on two real RTCPeerConnections; "
             "[plus, per worker, a reference configuration negotiated before and after all others: identical descriptions - sessions do not leak into each other] oracle: no call raises, both stable, answer sections mirror the offer (count/order/kind/mid), BUNDLE subset in order, "
             "answer codecs offered with the offerer's payload types, RTX only next to its base, rtcp-fb and header extensions "
             "offered (same ids), definite DTLS role, complementary currentDirection; then run: both connected, negotiated "
             "channels open, one message per channel delivered. distinct = distinct configuration keys",
        assumptions=["aioice replaced by a fake connection that pairs like ICE; real DTLS handshake and SCTP on the virtual loop",
                     "tracks never produce media (media flow is C11's business); decoder thread replaced by a no-op"],
        level="model_checking")


def replay(rep):
    r = rep["replay"]
    if r.get("kind") == "isolation":
        T = task((r["tier"], r["shard"], r["nshard"]))
        bad = [k for k in (T.violations if isinstance(T.violations, dict) else {}) if str(k).startswith("isolation")]
        print("isolation clause on shard %d/%d:" % (r["shard"], r["nshard"]), "FAILS" if bad else "holds")
        return 1 if bad else 0
    cfg = dict(r["cfg"], media=tuple(tuple(m) for m in r["cfg"]["media"]), pre=tuple(tuple(p) for p in r["cfg"]["pre"]))
    print(cfg_key(cfg, r.get("followup")))
    v = run_config(cfg, r.get("followup"), r.get("foreign", False), r.get("early", False))
    for clause, detail in v:
        print("FAILS clause=%s: %s" % (clause, detail))
    return 1 if v else 0
