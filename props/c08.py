"""C08 - SCTP packets round-trip exactly; corrupted packets are rejected by checksum (E-enum).

Part A: finite products of boundary domains for every chunk class, each case built as a real chunk
object, serialised with the real `serialize_packet`, parsed with the real `parse_packet`, compared
field by field and re-serialised (must be byte-identical).
Part B: for one packet of every chunk type, EVERY bit burst (all start positions x all lengths 1..32 x
inner patterns: all 2^(len-2) for short bursts, three structured ones above) must be rejected with the
checksum error before any chunk object is constructed.
"""
import itertools
import signal

import aiortc.rtcsctptransport as S
from vt.enumcheck import Tally, pmap, result

PID = "C08"
M32 = 2 ** 32 - 1
U32 = [0, 1, M32 - 1, M32]
U16 = [0, 1, 65534, 65535]
FLAGS = [0, 1, 7, 255]
PORTS = [(5000, 5000), (0, 65535), (65535, 1)]
TAGS = [0, 1, 0x80000000, M32]

PARAM_CLASSES = ["AbortChunk", "ErrorChunk", "HeartbeatChunk", "HeartbeatAckChunk", "ReconfigChunk"]
PLAIN_CLASSES = ["CookieAckChunk", "CookieEchoChunk", "ShutdownAckChunk", "ShutdownCompleteChunk"]
PTYPES = [1, 7, 0x8008, 0xC000, 0xFFFF, 13, 16, 17]


def pattern(n, salt=0):
    return bytes((i * 31 + salt * 7 + 1) & 0xFF for i in range(n))


# ----------------------------------------------------------------------------- building / comparing
def build(spec):
    """spec = dict(cls=..., flags=..., <fields>) -> chunk object"""
    cls = getattr(S, spec["cls"])
    c = cls(flags=spec["flags"])
    name = spec["cls"]
    if name in PLAIN_CLASSES:
        c.body = bytes.fromhex(spec["body"])
    elif name in PARAM_CLASSES:
        c.params = [(t, bytes.fromhex(v)) for t, v in spec["params"]]
    elif name in ("InitChunk", "InitAckChunk"):
        (c.initiate_tag, c.advertised_rwnd, c.outbound_streams, c.inbound_streams, c.initial_tsn) = spec["fields"]
        c.params = [(t, bytes.fromhex(v)) for t, v in spec["params"]]
    elif name == "DataChunk":
        c.tsn, c.stream_id, c.stream_seq, c.protocol = spec["fields"]
        c.user_data = pattern(spec["len"], spec.get("salt", 0))
    elif name == "SackChunk":
        c.cumulative_tsn, c.advertised_rwnd = spec["fields"]
        c.gaps = [tuple(g) for g in spec["gaps"]]
        c.duplicates = list(spec["dups"])
    elif name == "ForwardTsnChunk":
        c.cumulative_tsn = spec["cum"]
        c.streams = [tuple(s) for s in spec["streams"]]
    elif name == "ShutdownChunk":
        c.cumulative_tsn = spec["cum"]
    else:
        raise KeyError(name)
    return c


def fields_of(c):
    name = type(c).__name__
    if name in PLAIN_CLASSES:
        return (c.flags, bytes(c.body))
    if name in PARAM_CLASSES:
        return (c.flags, [(t, bytes(v)) for t, v in c.params])
    if name in ("InitChunk", "InitAckChunk"):
        return (c.flags, c.initiate_tag, c.advertised_rwnd, c.outbound_streams, c.inbound_streams, c.initial_tsn,
                [(t, bytes(v)) for t, v in c.params])
    if name == "DataChunk":
        return (c.flags, c.tsn, c.stream_id, c.stream_seq, c.protocol, bytes(c.user_data))
    if name == "SackChunk":
        return (c.flags, c.cumulative_tsn, c.advertised_rwnd, [tuple(g) for g in c.gaps], list(c.duplicates))
    if name == "ForwardTsnChunk":
        return (c.flags, c.cumulative_tsn, [tuple(s) for s in c.streams])
    if name == "ShutdownChunk":
        return (c.flags, c.cumulative_tsn)
    raise KeyError(name)


def roundtrip(spec, hdr, T):
    """Returns None or (clause, detail)."""
    sp, dp, tag = hdr
    try:
        chunk = build(spec)
        data = S.serialize_packet(sp, dp, tag, chunk)
    except Exception as e:
        return ("roundtrip/serialize-raises", "%s: %s" % (type(e).__name__, e))
    T.case(data)
    if len(data) % 4:
        return ("roundtrip/not-padded", "serialised length %d is not a multiple of 4" % len(data))
    try:
        sp2, dp2, tag2, chunks = S.parse_packet(data)
    except Exception as e:
        return ("roundtrip/parse-raises", "%s: %s" % (type(e).__name__, e))
    if (sp2, dp2, tag2) != (sp, dp, tag):
        return ("roundtrip/header", "%r != %r" % ((sp2, dp2, tag2), hdr))
    if len(chunks) != 1 or type(chunks[0]) is not type(chunk):
        return ("roundtrip/chunk-class", "parsed %r" % ([type(c).__name__ for c in chunks],))
    a, b = fields_of(chunk), fields_of(chunks[0])
    if a != b:
        return ("roundtrip/fields", "built %r parsed %r" % (_short(a), _short(b)))
    try:
        again = S.serialize_packet(sp2, dp2, tag2, chunks[0])
    except Exception as e:
        return ("roundtrip/reserialize-raises", "%s: %s" % (type(e).__name__, e))
    if again != data:
        return ("roundtrip/bytes", "re-serialised packet differs (%d vs %d bytes)" % (len(again), len(data)))
    return None


def _short(x):
    s = repr(x)
    return s if len(s) < 200 else s[:200] + "..."


# ----------------------------------------------------------------------------- part A families
def seqs(domain, maxlen):
    for n in range(maxlen + 1):
        for t in itertools.product(domain, repeat=n):
            yield list(t)


def param_lists(maxn, maxlen=9):
    """all lists of 0..maxn parameters with every value length 0..maxlen (types rotate)."""
    for n in range(maxn + 1):
        for lens in itertools.product(range(maxlen + 1), repeat=n):
            yield [(PTYPES[(i + sum(lens)) % len(PTYPES)], pattern(l, i).hex()) for i, l in enumerate(lens)]


def family(task):
    """task = (family name, tier, shard index, shard count)"""
    fam, tier, shard, nshard = task
    T = Tally()
    thorough = tier == "thorough"
    i = -1

    def mine():
        nonlocal i
        i += 1
        return i % nshard == shard

    def run(spec, hdr=(5000, 5000, 0x12345678)):
        v = roundtrip(spec, hdr, T)
        T.count(fam)
        if T.evaluations % 9973 == 1:
            T.sample(dict(family=fam, spec=spec))
        if v:
            T.violation("%s/%s" % (v[0], spec["cls"]), v[0], v[1], dict(kind="roundtrip", spec=spec, header=list(hdr)))

    if fam == "plain":
        for cls in PLAIN_CLASSES:
            for fl in FLAGS:
                for n in list(range(0, 10)) + [24, 255, 1200]:
                    for (sp, dp) in PORTS:
                        for tag in TAGS:
                            if mine():
                                run(dict(cls=cls, flags=fl, body=pattern(n).hex()), (sp, dp, tag))
    elif fam == "params":
        for cls in PARAM_CLASSES:
            for fl in FLAGS:
                for pl in param_lists(3):
                    if mine():
                        run(dict(cls=cls, flags=fl, params=pl))
    elif fam == "init":
        plists = list(param_lists(1)) + [[(SCTP_COOKIE, pattern(28).hex()), (0xC000, ""), (0x8008, "c0")]]
        if thorough:
            plists = list(param_lists(2))
        for cls in ("InitChunk", "InitAckChunk"):
            for fl in (0, 255):
                for f in itertools.product(U32, U32, U16, U16, U32):
                    for pl in (plists if (f[0] in (0, M32) and f[4] in (1, M32)) or thorough else plists[:3]):
                        if mine():
                            run(dict(cls=cls, flags=fl, fields=list(f), params=pl))
    elif fam == "data-len":
        # every user-data length 1..1200 x flags; fields rotate over the boundary product
        prod = list(itertools.product(U32, U16, U16, [0, 50, 51, 53, 56, 57, M32]))
        k = 0
        for n in range(1, 1201):
            for fl in (0, 1, 2, 3, 4, 7, 255):
                k += 1
                if mine():
                    run(dict(cls="DataChunk", flags=fl, fields=list(prod[(k * 17) % len(prod)]), len=n, salt=k % 5))
    elif fam == "data-fields":
        lens = [1, 2, 3, 4, 5, 1199, 1200] if not thorough else list(range(1, 9)) + [1197, 1198, 1199, 1200]
        for n in lens:
            for fl in (0, 3, 4, 255):
                for f in itertools.product(U32, U16, U16, [0, 50, 51, 53, 56, 57, M32]):
                    if mine():
                        run(dict(cls="DataChunk", flags=fl, fields=list(f), len=n))
    elif fam == "sack":
        gapdom = [(0, 0), (1, 1), (2, 5), (65535, 65535)] if thorough else [(1, 1), (2, 5), (65535, 65535)]
        dupdom = [0, 1, M32]
        for gaps in seqs(gapdom, 4):
            for dups in seqs(dupdom, 4):
                for f in ([(0, 0), (M32, M32), (1, M32 - 1), (M32 - 1, 1)] if thorough or len(gaps) + len(dups) <= 4 else [(M32, 1)]):
                    if mine():
                        run(dict(cls="SackChunk", flags=(len(gaps) * 7 + len(dups)) % 256, fields=list(f),
                                 gaps=[list(g) for g in gaps], dups=dups))
    elif fam == "fwd":
        for streams in seqs([(0, 0), (1, 65535), (65535, 1)], 4):
            for cum in U32:
                for fl in FLAGS:
                    if mine():
                        run(dict(cls="ForwardTsnChunk", flags=fl, cum=cum, streams=[list(s) for s in streams]))
        for cum in U32:
            for fl in FLAGS:
                if mine():
                    run(dict(cls="ShutdownChunk", flags=fl, cum=cum))
    elif fam == "reconfig":
        # parameter classes of RFC 6525: value-level round trip and inside a RE-CONFIG chunk
        for streams in seqs([0, 1, 65535], 5):
            for f in itertools.product([0, M32], [1, M32 - 1], [0, M32]):
                if not mine():
                    continue
                p = S.StreamResetOutgoingParam(request_sequence=f[0], response_sequence=f[1], last_tsn=f[2],
                                               streams=list(streams))
                _param_case(T, fam, 13, p)
        for seq in U32:
            for n in U16:
                if mine():
                    _param_case(T, fam, 17, S.StreamAddOutgoingParam(request_sequence=seq, new_streams=n))
            for res in U32:
                if mine():
                    _param_case(T, fam, 16, S.StreamResetResponseParam(response_sequence=seq, result=res))
    else:
        raise KeyError(fam)
    return T


SCTP_COOKIE = S.SCTP_STATE_COOKIE


def _param_case(T, fam, ptype, p):
    T.count(fam)
    raw = bytes(p)
    T.case(b"p%d" % ptype + raw)
    sig = None
    try:
        q = type(p).parse(raw)
        if q != p:
            sig = ("roundtrip/param-fields", "%r != %r" % (q, p))
        elif bytes(q) != raw:
            sig = ("roundtrip/param-bytes", "%r" % (p,))
        else:
            c = S.ReconfigChunk()
            c.params.append((ptype, raw))
            data = S.serialize_packet(5000, 5000, 1, c)
            _, _, _, chunks = S.parse_packet(data)
            ok = (len(chunks) == 1 and isinstance(chunks[0], S.ReconfigChunk) and len(chunks[0].params) == 1
                  and chunks[0].params[0][0] == ptype
                  and S.RECONFIG_PARAM_TYPES[ptype].parse(chunks[0].params[0][1]) == p
                  and S.serialize_packet(5000, 5000, 1, chunks[0]) == data)
            if not ok:
                sig = ("roundtrip/param-in-chunk", "%r" % (p,))
    except Exception as e:
        sig = ("roundtrip/param-raises", "%s: %s for %r" % (type(e).__name__, e, p))
    if sig:
        T.violation("%s/%s" % (sig[0], type(p).__name__), sig[0], sig[1],
                    dict(kind="param", ptype=ptype, raw=raw.hex()))


# ----------------------------------------------------------------------------- part B: bursts
def seed_packets():
    """One serialised packet per chunk type (as the library builds them)."""
    specs = [
        dict(cls="DataChunk", flags=3, fields=[0xFFFFFFFE, 1, 65535, 51], len=13),
        dict(cls="InitChunk", flags=0, fields=[0x11111111, 131072, 65535, 65535, 0xFFFFFFFD],
             params=[(0xC000, ""), (0x8008, "c082")]),
        dict(cls="InitAckChunk", flags=0, fields=[0x22222222, 131072, 65535, 65535, 7],
             params=[(0xC000, ""), (7, pattern(28).hex())]),
        dict(cls="SackChunk", flags=0, fields=[1000, 131072], gaps=[[2, 3], [5, 5]], dups=[1001]),
        dict(cls="HeartbeatChunk", flags=0, params=[(1, pattern(9).hex())]),
        dict(cls="HeartbeatAckChunk", flags=0, params=[(1, pattern(9).hex())]),
        dict(cls="AbortChunk", flags=1, params=[]),
        dict(cls="ShutdownChunk", flags=0, cum=4242),
        dict(cls="ShutdownAckChunk", flags=0, body=""),
        dict(cls="ErrorChunk", flags=0, params=[(3, "00000001")]),
        dict(cls="CookieEchoChunk", flags=0, body=pattern(28).hex()),
        dict(cls="CookieAckChunk", flags=0, body=""),
        dict(cls="ShutdownCompleteChunk", flags=1, body=""),
        dict(cls="ReconfigChunk", flags=0, params=[(13, bytes(S.StreamResetOutgoingParam(1, 2, 3, [0, 2])).hex())]),
        dict(cls="ForwardTsnChunk", flags=0, cum=99, streams=[[1, 7]]),
    ]
    return [(s["cls"], S.serialize_packet(5000, 5000, 0xCAFEBABE, build(s))) for s in specs]


class _Spy:
    """Wraps a chunk class in CHUNK_TYPES to notice any chunk construction."""
    hits = 0

    def __init__(self, cls):
        self.cls = cls

    def __call__(self, *a, **kw):
        _Spy.hits += 1
        return self.cls(*a, **kw)


def inner_patterns(length, full_upto):
    """XOR masks (as ints, bit 0 = last bit of the burst) for bursts of exactly `length` bits:
    both end bits are flipped; inner bits: all combinations when length <= full_upto, else three
    structured patterns (solid, ends only, alternating)."""
    if length == 1:
        return [1]
    top = 1 << (length - 1)
    if length <= full_upto:
        return [top | (m << 1) | 1 for m in range(1 << (length - 2))]
    solid = (1 << length) - 1
    alt = 0
    for i in range(length):
        if i % 2 == 0:
            alt |= 1 << i
    return sorted({solid, top | 1, alt | top | 1})


def bursts(task):
    cls, data_hex, full_upto, lo, hi = task
    data = bytes.fromhex(data_hex)
    T = Tally()
    nbits = len(data) * 8
    value = int.from_bytes(data, "big")
    saved = dict(S.CHUNK_TYPES)
    for k, v in saved.items():
        S.CHUNK_TYPES[k] = _Spy(v)
    _Spy.hits = 0
    parse = S.parse_packet
    n = 0

    class Hang(BaseException):
        pass

    def on_alarm(signum, frame):
        raise Hang()
    # CPU-time timer: immune to the worker being descheduled; one (start, length) batch normally takes < 0.1 s
    signal.signal(signal.SIGVTALRM, on_alarm)
    try:
        for length in range(1, 33):
            pats = inner_patterns(length, full_upto)
            for start in range(lo, min(hi, nbits - length + 1)):
                shift = nbits - start - length
                # data-dependent bursts: the window forced to all zeros / all ones
                window = (value >> shift) & ((1 << length) - 1)
                extra = [x for x in (window, window ^ ((1 << length) - 1)) if x]
                signal.setitimer(signal.ITIMER_VIRTUAL, 3.0)
                for m in (pats + extra if extra else pats):
                    n += 1
                    bad = (value ^ (m << shift)).to_bytes(len(data), "big")
                    try:
                        parse(bad)
                    except ValueError as e:
                        if "checksum" in str(e) and _Spy.hits == 0:
                            continue
                        verdict = "rejected for another reason (%s) / chunk constructed=%d" % (e, _Spy.hits)
                    except Exception as e:
                        verdict = "%s: %s" % (type(e).__name__, e)
                    else:
                        verdict = "accepted"
                    _Spy.hits = 0
                    T.violation("checksum/%s" % cls, "checksum/burst-not-rejected",
                                "%s packet, burst start bit %d length %d mask %x: %s" % (cls, start, length, m, verdict),
                                dict(kind="burst", cls=cls, data=data_hex, start=start, length=length, mask=m))
    except Hang:
        T.violation("checksum-hang/%s" % cls, "checksum/corrupted-packet-hangs-parser",
                    "%s packet, a burst at start bit %d length %d: parse_packet used more than 3 s of CPU" % (cls, start, length),
                    dict(kind="burst", cls=cls, data=data_hex, start=start, length=length, mask=m))
    finally:
        signal.setitimer(signal.ITIMER_VIRTUAL, 0)
        S.CHUNK_TYPES.update(saved)
    # a burst is identified by (start, length, inner pattern) with both end bits flipped: masks are
    # pairwise different by construction
    T.case(None, n)
    T.count("bursts/" + cls, n)
    if lo == 0:
        T.sample(dict(family="burst", cls=cls, packet=data_hex, example=dict(start=0, length=min(32, nbits), mask="solid")))
    return T


# ----------------------------------------------------------------------------- entry points
def run(tier, seed):
    thorough = tier == "thorough"
    fams = ["plain", "params", "init", "data-len", "data-fields", "sack", "fwd", "reconfig"]
    nshard = 8 if thorough else 4
    tasks = [(f, tier, s, nshard) for f in fams for s in range(nshard)]
    A = pmap("props.c08", "family", tasks, seed=seed)
    full_upto = 16 if thorough else 11
    btasks = []
    for cls, data in seed_packets():
        nbits = len(data) * 8
        step = 64 if thorough else 256
        for lo in range(0, nbits, step):
            btasks.append((cls, data.hex(), full_upto, lo, lo + step))
    B = pmap("props.c08", "bursts", btasks, seed=seed)
    # sanity of the burst harness itself: the unmodified packets parse, and a mask touching nothing is "accepted"
    for cls, data in seed_packets():
        S.parse_packet(data)
    roundtrips = A.evaluations
    A.merge(B)
    return result(
        PID, A,
        rule="A: for every chunk class the full product of boundary domains (flags {0,1,7,255}; 32-bit fields {0,1,max-1,"
             "max}; 16-bit {0,1,65534,65535}; DATA user data of EVERY length 1..1200; parameter lists of 0-3 parameters with "
             "EVERY value length 0..9; SACK gap lists 0-4 x duplicate lists 0-4; FORWARD-TSN stream lists 0-4; RE-CONFIG "
             "parameter classes with 0-5 streams) built as real chunk objects -> serialize_packet -> parse_packet -> field "
             "equality -> re-serialise byte-identical; distinct = distinct serialised packets. B: for one packet per chunk type "
             "(15), every burst: all start bits x lengths 1..32 x inner patterns (all 2^(len-2) for len <= %d, solid/ends/"
             "alternating above, plus the window forced to all-zeros and to all-ones) must raise the checksum ValueError with no chunk object constructed (CHUNK_TYPES spied); "
             "distinct by construction (start,len,pattern)" % full_upto,
        assumptions=["CRC-32c arithmetic itself (google_crc32c) is trusted; what is checked is that it is computed over the "
                     "right bytes and compared before chunk processing",
                     "field values strictly between the listed boundary values are not enumerated"],
        extra=dict(roundtrip_cases=roundtrips, burst_cases=B.evaluations, burst_full_pattern_upto_bits=full_upto))


def replay(rep):
    r = rep["replay"]
    if r["kind"] == "roundtrip":
        T = Tally()
        v = roundtrip(r["spec"], tuple(r["header"]), T)
        print("spec:", r["spec"])
        if v:
            print("FAILS clause=%s: %s" % v)
            return 1
    elif r["kind"] == "param":
        cls = S.RECONFIG_PARAM_TYPES[r["ptype"]]
        raw = bytes.fromhex(r["raw"])
        try:
            q = cls.parse(raw)
            print(q, bytes(q) == raw)
            if bytes(q) != raw:
                return 1
        except Exception as e:
            print("FAILS", type(e).__name__, e)
            return 1
    elif r["kind"] == "burst":
        data = bytes.fromhex(r["data"])
        nbits = len(data) * 8
        bad = (int.from_bytes(data, "big") ^ (r["mask"] << (nbits - r["start"] - r["length"]))).to_bytes(len(data), "big")
        try:
            S.parse_packet(bad)
            print("FAILS: corrupted packet accepted")
            return 1
        except ValueError as e:
            print("rejected:", e)
            if "checksum" not in str(e):
                return 1
    print("no violation")
    return 0
