"""C13 - data channel lifecycle: faithful open, forward-only states, exact bufferedAmount.

E-sched with the application program as part of what is enumerated: every program (script of side A x
counter-behaviour of side B x endpoint roles x reliability settings) from a small grammar is run on the
real RTCSctpTransport/RTCDataChannel pair, and on top of every program all executions with at most k
network/timer deviations are explored.  Operations carry anchors that fix when they run relative to the
association set-up (before start, INIT in flight, COOKIE in flight, established, same instant as the
previous operation).
"""
import itertools

from props import sctp_common as C
from vt.explore import run_one
from vt.sched_check import run_sched, replay_sched
from vt.sctpworld import SctpWorld, describe_datagram
import aiortc.rtcsctptransport as S

PID = "C13"
RANK = {"connecting": 0, "open": 1, "closing": 2, "closed": 3}

RELIABILITY = {
    "rel": dict(),
    "rtx0u": dict(maxRetransmits=0, ordered=False),
    "life": dict(maxPacketLifeTime=50),
}
ANCHOR_POINT = {"H0": 0, "H2": 2, "E": None}      # P = before start (prestart), "=" = same step as previous


# ----------------------------------------------------------------------------- the world with lifecycle observation
class LifeWorld(SctpWorld):
    def __init__(self, spec):
        self.records = []            # one per channel object: dict(label, side, ch, ranks, opens, closes, low_events, ...)
        self.by_obj = {}
        self.viol = []               # violations noticed inside callbacks / op hooks
        self.dropped = []
        self.close_called = set()    # labels on which close() was called by the application
        self.close_early = set()     # ... while the closing side's association was not established yet
        self.reactive = spec.get("reactive", {})
        self._echoed = set()
        self.op_hook = LifeWorld._op_hook
        self.last_reset_request = {}  # destination -> the last datagram carrying an Outgoing SSN Reset Request delivered to it
        super().__init__(spec)
        self.delivery_hook = self._remember_reset_request

    def _remember_reset_request(self, dst, data):
        try:
            for c in S.parse_packet(data)[3]:
                if isinstance(c, S.ReconfigChunk) and any(p[0] == 13 for p in c.params):
                    self.last_reset_request[dst] = bytes(data)
        except ValueError:
            pass

    # ---- channel bookkeeping
    def _attach(self, view, side, channel):
        super()._attach(view, side, channel)
        rec = dict(label=view.label, side=side, ch=channel, ranks=[RANK[channel.readyState]], opens=0, closes=0,
                   low=0, low_expected=0, last_amount=channel.bufferedAmount, threshold=0, monotone=True)
        self.records.append(rec)
        self.by_obj[id(channel)] = rec
        if self.reactive.get(side) == "echo_close":
            def echo(m, channel=channel, view=view, side=side):
                if view.label in self._echoed:
                    return
                self._echoed.add(view.label)
                if channel.readyState == "open":
                    channel.send(m)
                    view.sent[side].append(m)
                    channel.close()
                    self.close_called.add(view.label)
                    self.log.append(("echo-close", side, view.label, self.point))
            channel.on("message", echo)

    def _on_chan_event(self, view, side, channel, ev):
        super()._on_chan_event(view, side, channel, ev)
        rec = self.by_obj.get(id(channel))
        if rec is None:
            return
        if ev == "open":
            rec["opens"] += 1
        elif ev == "close":
            rec["closes"] += 1
        elif ev == "bufferedamountlow":
            rec["low"] += 1
            # what the application's handler reads at that moment: the amount has crossed the threshold DOWNWARDS
            seen = rec["ch"].bufferedAmount
            if seen > rec["threshold"]:
                rec["low_stale"] = (seen, rec["threshold"])
        self._note_state(rec)

    def _note_state(self, rec):
        r = RANK[rec["ch"].readyState]
        if r != rec["ranks"][-1]:
            rec["ranks"].append(r)

    # ---- sampling around application operations (bufferedAmount only grows inside send(), only shrinks while draining)
    @staticmethod
    def _op_hook(world, op, when):
        if when == "before":
            world._sample_amounts(False)
            if op[0] in ("close", "close_latest"):
                side = op[1]
                if world.sctp[side]._association_state != S.RTCSctpTransport.State.ESTABLISHED:
                    for label in ([op[2]] if op[0] == "close" else list(world.channels)):
                        ch = world.channels[label].ends.get(side) if label in world.channels else None
                        if ch is not None and ch.readyState not in ("closing", "closed"):
                            world.close_early.add(label)
        else:
            if op[0] == "threshold":
                rec = world.by_obj.get(id(world.channels[op[2]].ends.get(op[1])))
                if rec:
                    rec["threshold"] = op[3]
            if op[0] == "close":
                world.close_called.add(op[2])
            world._sample_amounts(True)

    def _sample_amounts(self, growing):
        """Compare bufferedAmount with the previous sample: a downward crossing of the threshold between two samples
        must have produced exactly one bufferedamountlow event, anything else none."""
        for rec in self.records:
            ch = rec["ch"]
            amount = ch.bufferedAmount
            prev = rec["last_amount"]
            thr = rec["threshold"]
            if not growing:
                if prev > thr and amount <= thr:
                    rec["low_expected"] += 1
            rec["last_amount"] = amount
            self._note_state(rec)

    def apply(self, ev):
        if ev[2][0] == "drop":
            self.dropped.append(describe_datagram(self._find(ev[2][1]).data))
        super().apply(ev)
        self._sample_amounts(False)

    def _do_op_inner(self, op):
        if op[0] == "send_latest":
            # send on the most recently created channel of that side which is open
            _, side, payload = op
            for label in reversed(list(self.channels)):
                ch = self.channels[label].ends.get(side)
                if ch is not None and ch.readyState == "open":
                    return super()._do_op_inner(("send", side, label, payload))
            self.log.append(("send-skipped", side, "-", self.point))
            return
        if op[0] == "close_latest":
            _, side = op
            for label in reversed(list(self.channels)):
                ch = self.channels[label].ends.get(side)
                if ch is not None and ch.readyState not in ("closing", "closed"):
                    self.close_called.add(label)
                    return super()._do_op_inner(("close", side, label))
            return
        return super()._do_op_inner(op)


# ----------------------------------------------------------------------------- oracle
def expected_amount_bounds(world, side, ch):
    """bytes accepted by send() and not yet handed to the transport, read off the transport's message queue; empty
    messages are accounted as one placeholder byte by the implementation: allowed as slack."""
    lo = hi = 0
    for (c, pp, data) in world.sctp[side]._data_channel_queue:
        if c is ch and pp != S.WEBRTC_DCEP:
            if pp in (S.WEBRTC_STRING_EMPTY, S.WEBRTC_BINARY_EMPTY):
                hi += len(data)
            else:
                lo += len(data)
                hi += len(data)
    return lo, hi


def lost_tag(world):
    kinds = set()
    for d in world.dropped:
        for k in ("Reconfig", "Abort", "Init", "Cookie"):
            if k in d:
                kinds.add(k)
    return (" [lost: %s]" % ",".join(sorted(kinds))) if kinds else ""


class Oracle:
    def __init__(self, probe_reuse=True):
        self.probe_reuse = probe_reuse

    def point(self, w):
        out = C.check_tasks(w)
        out += C.check_delivery(w)
        for rec in w.records:
            ch, label, side = rec["ch"], rec["label"], rec["side"]
            w._note_state(rec)
            ranks = rec["ranks"]
            if any(b < a for a, b in zip(ranks, ranks[1:])):
                out.append(("state/backward", "%s@%s readyState went %s" % (
                    label, side, "->".join(k for r in ranks for k, v in RANK.items() if v == r))))
            if rec["opens"] > 1 or rec["closes"] > 1:
                out.append(("state/event-count", "%s@%s: %d open events, %d close events" % (label, side, rec["opens"], rec["closes"])))
            if rec["closes"] and ch.readyState != "closed":
                out.append(("state/close-event-not-final", "%s@%s close event fired, readyState %s" % (label, side, ch.readyState)))
            amount = ch.bufferedAmount
            if amount < 0:
                out.append(("buffered/negative", "%s@%s bufferedAmount=%d" % (label, side, amount)))
            elif ch.readyState in ("connecting", "open"):
                lo, hi = expected_amount_bounds(w, side, ch)
                if not lo <= amount <= hi:
                    out.append(("buffered/amount", "%s@%s bufferedAmount=%d, bytes accepted and not yet handed to the transport: %d" % (
                        label, side, amount, lo)))
            if rec.get("low_stale"):
                out.append(("buffered/amount-in-low-handler", "%s@%s: inside the bufferedamountlow handler bufferedAmount reads %d, above the threshold %d" % (
                    (label, side) + rec["low_stale"])))
            if not w.reactive.get(side) and rec["low"] != rec["low_expected"]:
                out.append(("buffered/low-event", "%s@%s: %d bufferedamountlow events, %d downward crossings of threshold %d" % (
                    label, side, rec["low"], rec["low_expected"], rec["threshold"])))
        # datachannel events: at most one per opened channel, faithful attributes
        for side in "AB":
            seen = {}
            for ch in w.dc_events[side]:
                seen[ch.label] = seen.get(ch.label, 0) + 1
                spec = w._chspec.get(ch.label)
                if spec is None:
                    out.append(("open/unknown-channel", "datachannel event with label %r on %s" % (ch.label, side)))
                    continue
                creator = w.channels[ch.label].ends.get(spec["creator"]) if ch.label in w.channels else None
                want = (spec["label"], spec.get("protocol", ""), spec.get("ordered", True), spec.get("maxRetransmits"),
                        spec.get("maxPacketLifeTime"))
                got = (ch.label, ch.protocol, ch.ordered, ch.maxRetransmits, ch.maxPacketLifeTime)
                if want != got:
                    out.append(("open/attributes", "%s: announced as %r, created as %r" % (ch.label, got, want)))
                if creator is not None and creator.id != ch.id:
                    out.append(("open/id-differs", "%s: id %r on the creating side, %r on the other" % (ch.label, creator.id, ch.id)))
            for label, n in seen.items():
                if n > 1:
                    out.append(("open/duplicate-event", "%d datachannel events for %s on %s" % (n, label, side)))
        # ids: never two live channels with one id on a side; one id never names two different channels across sides
        live = {}
        for rec in w.records:
            ch = rec["ch"]
            if ch.id is not None and ch.readyState != "closed":
                key = (rec["side"], ch.id)
                if key in live and live[key] != rec["label"]:
                    out.append(("id/collision", "id %d on %s names both %s and %s" % (ch.id, rec["side"], live[key], rec["label"])))
                live[key] = rec["label"]
        for (side, cid), label in live.items():
            other = live.get(("B" if side == "A" else "A", cid))
            if other is not None and other != label:
                out.append(("id/collision-across", "id %d is %s on %s and %s on the other side" % (cid, label, side, other)))
        if out:
            tag = lost_tag(w)
            out = [(c, d + tag) for c, d in out]
        return out

    def terminal(self, w):
        out = []
        tag = lost_tag(w)
        connected = all(w.sctp[s].state == "connected" for s in "AB")
        if w.stalled and connected:
            # (when one side has ended its association and the ABORT was lost, the survivor retransmits for ever: this
            # implementation has no association error counter; that is not a statement of this property)
            return [("liveness/never-quiescent", "timers still firing at the horizon" + tag)]
        stopped = any(op[0] == "stop" for step in w.spec.get("script", []) for op in step) or \
            any(op[0] == "stop" for op in w.spec.get("prestart", []))
        if not connected and not stopped:
            out.append(("liveness/association-lost", "association states at quiescence: A=%s B=%s" % (
                w.sctp["A"].state, w.sctp["B"].state)))
        for side in "AB":
            if w.sctp[side].state == "closed":
                for rec in w.records:
                    if rec["side"] == side and rec["ch"].readyState != "closed":
                        out.append(("end/channel-not-closed", "%s@%s is %s although the association ended" % (
                            rec["label"], side, rec["ch"].readyState)))
        if connected:
            for label, view in w.channels.items():
                spec = w._chspec[label]
                ends = view.ends
                if label in w.close_called:
                    for side in "AB":
                        ch = ends.get(side)
                        if ch is not None and ch.readyState != "closed":
                            clause = "close/not-closed"
                            if label in w.close_early:
                                clause += "/closed-before-established"
                            elif any(w.sctp[x]._reconfig_request is not None for x in "AB"):
                                clause += "/reset-request-unanswered"
                            out.append((clause, "%s@%s is %s after close() and a healed network" % (label, side, ch.readyState)))
                elif spec.get("negotiated") is None:
                    # a DCEP channel that nobody closed: announced exactly once, open on both ends
                    creator = ends.get(spec["creator"])
                    peer_side = "B" if spec["creator"] == "A" else "A"
                    n = sum(1 for ch in w.dc_events[peer_side] if ch.label == label)
                    if creator is not None and n != 1:
                        out.append(("open/no-event", "%s: %d datachannel events on %s" % (label, n, peer_side)))
                    for side in "AB":
                        ch = ends.get(side)
                        if ch is not None and ch.readyState != "open":
                            out.append(("open/not-open", "%s@%s is %s at quiescence" % (label, side, ch.readyState)))
                else:
                    for side in "AB":
                        ch = ends.get(side)
                        if ch is not None and ch.readyState != "open":
                            out.append(("open/not-open", "%s@%s (negotiated) is %s at quiescence" % (label, side, ch.readyState)))
            for rec in w.records:
                if rec["ch"].readyState == "open" and rec["ch"].bufferedAmount != 0:
                    out.append(("buffered/not-drained", "%s@%s bufferedAmount=%d at quiescence" % (rec["label"], rec["side"], rec["ch"].bufferedAmount)))
            if not out:
                out += C.drained_violations(w)
            if not out and self.probe_reuse:
                out += reuse_probe(w)
        if out:
            out = [(c, d + tag) for c, d in out]
        return out


def reuse_probe(w):
    """Every id freed by a close can be used again: a new negotiated pair on that id opens and carries messages in order,
    also when its first data datagram is lost."""
    out = []
    ids = sorted({rec["ch"].id for rec in w.records if rec["ch"].readyState == "closed" and rec["ch"].id is not None
                  and rec["label"] in w.close_called})
    ids = [i for i in ids if all(i not in w.sctp[s]._data_channels for s in "AB")]
    if not ids:
        return out
    w.faults_enabled = False
    w.stalled = False
    w.last_fault_time = w.loop.time()
    w.max_points = w.point + 600
    w.reactive = {}
    labels = []
    for i in ids[:2]:
        label = "reuse%d" % i
        w._chspec[label] = C.chan(label, negotiated=i)
        labels.append(label)
        try:
            w._create(label)
        except Exception as e:
            return [("close/id-not-reusable", "creating a negotiated channel on freed id %d raised %s: %s" % (i, type(e).__name__, e))]
    w.loop.drain()
    step = []
    for label in labels:
        for k in range(3):
            step.append(("send", "A", label, C.pay(label + "a", k, 60)))
            step.append(("send", "B", label, C.pay(label + "b", k, 60)))
    w.script.append(step)
    w.anchors = []
    # run the step, lose the first data datagram in each direction, then the default policy
    m = w.menu()
    if m:
        w.apply(m[0])
    for d in "AB":
        for dg in list(w.wire):
            if dg.src == d and "Data" in describe_datagram(dg.data):
                w.wire.remove(dg)
                break
    w.run_default()
    if w.stalled:
        return [("close/reuse-never-quiescent", "traffic on a re-used id never settles")]
    out += C.check_tasks(w) + C.check_delivery(w)
    for label in labels:
        view = w.channels[label]
        for src, dst in (("A", "B"), ("B", "A")):
            if len(view.sent[src]) != 3 or len(view.recv[dst]) != 3:
                out.append(("close/id-not-reusable", "%s: %d of %d messages %s>%s delivered on a re-used id" % (
                    label, len(view.recv[dst]), len(view.sent[src]), src, dst)))
    if out:
        return out
    # the network now delivers a late duplicate of the last stream reset request each side had received (it was answered
    # long ago): the channels that re-use the ids stay open and keep working
    for dst, data in sorted(w.last_reset_request.items()):
        rx = w.dtls[dst].receiver
        if rx is not None:
            w.loop.create_task(rx._handle_data(data))
            w.loop.drain()
    step = []
    for label in labels:
        step.append(("send", "A", label, C.pay(label + "a", 3, 60)))
        step.append(("send", "B", label, C.pay(label + "b", 3, 60)))
    w.script.append(step)
    m = w.menu()
    if m:
        w.apply(m[0])
    w.run_default()
    out += C.check_tasks(w) + C.check_delivery(w)
    for label in labels:
        view = w.channels[label]
        for side in "AB":
            ch = view.ends.get(side)
            if ch is not None and ch.readyState != "open":
                out.append(("close/reused-id-closed-by-stale-request", "%s@%s is %s after a late duplicate of an old stream reset request" % (
                    label, side, ch.readyState)))
        for src, dst in (("A", "B"), ("B", "A")):
            if not out and len(view.recv[dst]) != 4:
                out.append(("close/id-not-reusable", "%s: %d of 4 messages %s>%s delivered on a re-used id after a late duplicate of an old reset request" % (
                    label, len(view.recv[dst]), src, dst)))
    return out


def signature(clause, detail, r):
    if "[lost: " in detail:
        return clause + "/lost:" + detail.rsplit("[lost: ", 1)[1].rstrip("]")
    return clause


# ----------------------------------------------------------------------------- program grammar
OPS = ["cA", "cN", "sS", "sL", "x", "stop"]
ANCHORS = ["P", "H0", "H2", "E", "="]


def scripts(maxlen):
    """All sequences of (op, anchor) with non-decreasing anchors that make sense."""
    order = {"P": 0, "H0": 1, "H2": 2, "E": 3}
    out = []

    def rec(seq, chans, cur, stopped):
        if seq:
            out.append(list(seq))
        if len(seq) >= maxlen or stopped:
            return
        for op in OPS:
            if op in ("sS", "sL", "x") and chans == 0:
                continue
            if op == "cN" and any(o == "cN" for o, _ in seq):
                continue
            for a in ANCHORS:
                if a == "=":
                    if not seq:
                        continue
                    a_eff = cur
                else:
                    a_eff = a
                    if cur is not None and order[a] <= order[cur]:
                        continue        # strictly later than the previous anchor; "=" is the same instant
                if op in ("sS", "sL") and order[a_eff] < 3:
                    continue            # sending needs an open channel: only once established
                if op == "stop" and a_eff == "P":
                    continue
                rec(seq + [(op, a)], chans + (op in ("cA", "cN")), a_eff, op == "stop")
    rec([], 0, None, False)
    return out


B_BEHAVIOURS = ["idle", "echo_close", "cB", "cB_x"]


def build_spec(script, behaviour, client, rel):
    """Translate a grammar script into a world spec."""
    relkw = RELIABILITY[rel]
    chans = []
    prestart = []
    steps = []
    anchors = []
    na = 0
    cur_anchor = None
    first_step_ops = None
    for i, (op, a) in enumerate(script):
        if a != "=":
            cur_anchor = a
        ops = []
        if op == "cA":
            na += 1
            label = "a%d" % na
            chans.append(C.chan(label, creator="A", scripted=True, **relkw))
            ops.append(("create", label))
        elif op == "cN":
            chans.append(C.chan("n1", negotiated=4, scripted=True, **relkw))
            ops.append(("create", "n1"))
        elif op == "sS":
            ops.append(("send_latest", "A", C.pay("s%d" % i, i, 40, text=(i % 2 == 0))))
        elif op == "sL":
            ops.append(("send_latest", "A", C.pay("L%d" % i, i, 2500)))
            ops.append(("send_latest", "A", b""))
            ops.append(("send_latest", "A", C.pay("t%d" % i, i, 30)))
        elif op == "x":
            ops.append(("close_latest", "A"))
        elif op == "stop":
            ops.append(("stop", "A"))
        if i == 0 and behaviour in ("cB", "cB_x"):
            chans.append(C.chan("b1", creator="B", scripted=True, **relkw))
            ops.append(("create", "b1"))
            if behaviour == "cB_x":
                ops.append(("close", "B", "b1"))
        if cur_anchor == "P":
            prestart += ops
        elif a == "=" and steps:
            steps[-1] += ops
        else:
            steps.append(ops)
            anchors.append(ANCHOR_POINT[cur_anchor])
    # observe a threshold crossing on programs that send a multi-message burst
    if any(op == "sL" for op, _ in script):
        for st in steps:
            for j, o in enumerate(st):
                if o[0] == "send_latest" and isinstance(o[2], bytes) and len(o[2]) == 2500:
                    st.insert(j, ("call", _set_threshold))
                    break
    # both TSN spaces (and with them the RE-CONFIG request sequence numbers, which start at the initial TSN) wrap during the
    # program: the second stream reset of a side carries request sequence 0 after 2^32-1
    spec = dict(setup="explored", channels=chans, prestart=prestart, script=steps, anchors=anchors, client=client,
                tsn={"A": 2 ** 32 - 1, "B": 2 ** 32 - 1},
                reactive={"B": "echo_close"} if behaviour == "echo_close" else {}, horizon=1500.0, max_points=600)
    return spec


def _set_threshold(world):
    for label in reversed(list(world.channels)):
        ch = world.channels[label].ends.get("A")
        if ch is not None and ch.readyState == "open":
            ch.bufferedAmountLowThreshold = 30      # exactly the size of the last message of the burst
            rec = world.by_obj.get(id(ch))
            if rec:
                rec["threshold"] = 30
            return


def program_name(script, behaviour, client, rel):
    return "%s|%s|%s|%s" % (",".join("%s@%s" % (o, a) for o, a in script), behaviour, client, rel)


def parse_name(name):
    s, behaviour, client, rel = name.split("|")
    script = [tuple(x.split("@")) for x in s.split(",")]
    return script, behaviour, client, rel


def programs(tier):
    out = []
    L = 2 if tier == "quick" else 3
    for script in scripts(L):
        ops = [o for o, _ in script]
        for behaviour in B_BEHAVIOURS:
            if behaviour == "echo_close" and not any(o in ("sS", "sL") for o in ops):
                continue
            for client in "AB":
                for rel in RELIABILITY:
                    if rel != "rel" and (len(script) > 2 or behaviour in ("cB_x",)) and tier == "quick":
                        continue
                    if tier != "quick" and len(script) == 3 and (rel != "rel" or (client == "B" and behaviour != "idle")):
                        continue
                    out.append(program_name(script, behaviour, client, rel))
    return out


# longer hand-picked scripts on top of the grammar: several channels closed back to back while one of them is busy,
# a channel created in the instant another one is closed (id re-use while the reset is pending), close after a burst
EXTRA_SCRIPTS = [
    [("cA", "P"), ("cA", "="), ("sL", "E"), ("x", "="), ("x", "=")],
    [("cA", "P"), ("cN", "="), ("sS", "E"), ("x", "="), ("x", "=")],
    [("cA", "P"), ("cA", "="), ("cN", "="), ("sL", "E"), ("x", "="), ("x", "="), ("x", "=")],
    [("cA", "P"), ("sL", "E"), ("x", "="), ("cA", "="), ("sS", "E")],
    [("cN", "P"), ("sL", "E"), ("x", "="), ("cA", "="), ("sS", "E"), ("x", "=")],
    [("cA", "P"), ("cA", "="), ("sS", "E"), ("x", "E"), ("sS", "E"), ("x", "=")],
]


def extra_programs(tier):
    out = []
    for script in EXTRA_SCRIPTS:
        for behaviour in ("idle", "echo_close", "cB"):
            for client in "AB":
                for rel in (("rel",) if tier == "quick" else tuple(RELIABILITY)):
                    out.append(program_name(script, behaviour, client, rel))
    return out


def scenario(name):
    if name.startswith("label:"):
        return label_scenario(name)
    script, behaviour, client, rel = parse_name(name)
    spec = build_spec(script, behaviour, client, rel)
    return (lambda: LifeWorld(spec)), Oracle(), signature


# ----------------------------------------------------------------------------- labels / protocols over Unicode
TEXTS = ["", "a", "é", "日本", "😀", "x" * 255, "ü" * 300]


def label_scenario(name):
    _, i, j, rel = name.split(":")
    label, protocol = TEXTS[int(i)], TEXTS[int(j)]
    kw = dict(RELIABILITY[rel])
    spec = dict(setup="established",
                channels=[dict(C.chan(label, creator="A", **kw), protocol=protocol),
                          dict(C.chan("peer-" + label, creator="B", **kw), protocol=protocol)],
                script=[[("send", "A", label, "x"), ("send", "B", "peer-" + label, b"y")]], horizon=300.0, max_points=300)
    return (lambda: LifeWorld(spec)), Oracle(probe_reuse=False), signature


# ----------------------------------------------------------------------------- entry points
def run(tier, seed):
    progs = programs(tier)
    sb = []
    for p in progs:
        script = parse_name(p)[0]
        if tier == "quick":
            k = 1
        else:
            k = 2 if len(script) <= 2 else 1
        sb.append((p, k))
    extra = extra_programs(tier)
    sb += [(p, 1 if tier == "quick" else 2) for p in extra]
    if tier == "quick":
        # id re-use after a close while abandoned data is still being reported (found at k = 2 by the thorough tier)
        deep = [program_name(EXTRA_SCRIPTS[3], "idle", "A", rel) for rel in RELIABILITY if rel != "rel"]
        # two stream resets by one side with two network faults (a late answer to the first request, the second request lost)
        deep += [program_name(EXTRA_SCRIPTS[1], "idle", c, "rel") for c in "AB"]
        sb += [(p, 2) for p in deep]
        extra = extra + deep
    progs = progs + extra
    labels = [("label:%d:%d:%s" % (i, j, rel), 0) for i in range(len(TEXTS)) for j in range(len(TEXTS))
              for rel in (("rel",) if (i + j) % 3 else tuple(RELIABILITY))]
    res = run_sched(
        "props.c13", PID, sb + labels, seed,
        rule="programs = every script of <= %d operations of side A over {create auto-id channel, create negotiated pair (id 4), "
             "send small, send burst (3 fragments + empty + small, with a bufferedAmountLowThreshold), close latest channel, stop "
             "association} (plus 6 hand-picked scripts of 5-7 operations: several channels closed back to back while one is busy, a "
             "channel created in the instant another is closed) with anchors {before start, INIT in flight, COOKIE in flight, established, same instant as the previous "
             "operation} x behaviour of side B {idle, echo first message then close, create its own channel at the same instant, "
             "create and close at once} x which side is the SCTP client x reliability {reliable, maxRetransmits=0 unordered, "
             "maxPacketLifeTime=50}; on every program all executions with <= k deviations (drop/dup/reorder/timer first/operation "
             "first or datagram first); plus 49+ (label, protocol) pairs over Unicode on the default schedule. Oracle at every point: "
             "<= 1 datachannel event per channel with equal id/label/protocol/ordered/reliability, no id collisions, readyState "
             "forward only with <= 1 open/close event, bufferedAmount >= 0 and equal to the queued bytes, bufferedamountlow exactly at "
             "downward crossings (and the amount read inside its handler is at or below the threshold); at the healed terminal point: closed on both ends after close(), freed ids reusable (new negotiated "
             "pair carries 3 messages each way in order although its first datagram is lost, and stays open when a late duplicate of the old reset request arrives), all channels closed when the "
             "association ended, bufferedAmount 0" % (2 if tier == "quick" else 3),
        assumptions=["DTLS stand-in; transport send never suspends; deviation bound k per program",
                     "empty messages are accounted by the implementation as one placeholder byte: allowed as slack in the equality"])
    res["violations"] = collapse(res["violations"])
    res["coverage"]["programs"] = len(progs)
    res["coverage"]["label_protocol_pairs"] = len(labels)
    # keep the evidence file small: per-scenario table only for the first programs
    sc = res["coverage"].get("scenarios", {})
    if len(sc) > 40:
        res["coverage"]["scenarios"] = {k: sc[k] for k in list(sc)[:40]}
        res["coverage"]["scenarios_listed"] = 40
    return res


def collapse(violations):
    """One entry per (clause signature) instead of one per program: thousands of programs share a few mechanisms."""
    groups = {}
    for v in violations:
        pid, scen, sig = v["signature"].split("|", 2) if v["signature"].count("|") >= 2 else (PID, "?", v["signature"])
        scen = v["replay"].get("scenario", "?")
        sig = v["signature"][len(pid) + 1 + len(scen) + 1:]
        key = sig
        g = groups.get(key)
        if g is None:
            g = dict(v)
            g["signature"] = "%s|%s" % (PID, sig)
            g["programs"] = 1
            g["detail"] = "%s [program %s]" % (v["detail"], scen)
            groups[key] = g
        else:
            g["count"] += v["count"]
            g["programs"] += 1
            if (v["replay"].get("deviations", 9), len(v["replay"].get("choices", []))) < \
                    (g["replay"].get("deviations", 9), len(g["replay"].get("choices", []))):
                keep = (g["count"], g["programs"])
                g.update(v)
                g["signature"] = "%s|%s" % (PID, sig)
                g["detail"] = "%s [program %s]" % (v["detail"], scen)
                g["count"], g["programs"] = keep
    out = []
    for g in groups.values():
        g["detail"] += " (%d programs)" % g.pop("programs")
        out.append(g)
    return out


def replay(rep):
    return replay_sched(rep)
